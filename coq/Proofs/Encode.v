(* Layer B of C01: what __make_dot_bracket writes, and that the decoder reads it back, for any
   well-formed region list and any proper level assignment. *)
From Coq Require Import String Ascii ZArith List Bool Arith Lia ZifyBool.
From RV Require Import Base.Val Gen.Common Model.Bpseq Proofs.Stack.
Import ListNotations.

(* ---------------------------------------------------------------- lists *)

Lemma length_set_nth : forall (A : Type) (l : list A) i x, length (set_nth l i x) = length l.
Proof. induction l as [|h t IH]; intros [|i] x; cbn; auto. Qed.

Lemma nth_set_nth : forall (A : Type) (l : list A) i x p d,
    nth p (set_nth l i x) d = if (p =? i) && (i <? length l) then x else nth p l d.
Proof.
  induction l as [|h t IH]; intros i x p d.
  - cbn [set_nth length]. destruct (p =? i); cbn [andb]; [|reflexivity].
    replace (i <? 0) with false by (symmetry; apply Nat.ltb_ge; lia). reflexivity.
  - destruct i as [|i]; destruct p as [|p]; cbn [set_nth nth length]; try reflexivity.
    rewrite IH. replace (S p =? S i) with (p =? i) by reflexivity.
    replace (S i <? S (length t)) with (i <? length t) by reflexivity. reflexivity.
Qed.

(* ---------------------------------------------------------------- one region *)

Definition in5 (r : region) (x : nat) : Prop := match r with (j, k, len) => j <= x /\ x < j + len end.
Definition in3 (r : region) (x : nat) : Prop := match r with (j, k, len) => k < x + len /\ x <= k end.
Definition covers (r : region) (x : nat) : Prop := in5 r x \/ in3 r x.
Definition rwf (n : nat) (r : region) : Prop :=
  match r with (j, k, len) => 1 <= j /\ 1 <= len /\ j + len + len <= k + 1 /\ k <= n end.

Definition in5b (r : region) (x : nat) : bool := match r with (j, k, len) => (j <=? x) && (x <? j + len) end.
Definition in3b (r : region) (x : nat) : bool := match r with (j, k, len) => (k <? x + len) && (x <=? k) end.

Lemma in5b_spec : forall r x, in5b r x = true <-> in5 r x.
Proof. intros [[j k] len] x. unfold in5b, in5. rewrite andb_true_iff, Nat.leb_le, Nat.ltb_lt. tauto. Qed.
Lemma in3b_spec : forall r x, in3b r x = true <-> in3 r x.
Proof. intros [[j k] len] x. unfold in3b, in3. rewrite andb_true_iff, Nat.leb_le, Nat.ltb_lt. tauto. Qed.

Lemma fill_length : forall len s o c j k, length (fill s o c j k len) = length s.
Proof. induction len as [|len IH]; intros; cbn [fill]; [reflexivity|]. rewrite IH, !length_set_nth. reflexivity. Qed.

Lemma fill_nth : forall len s o c j k p,
    1 <= j -> j + len + len <= k + 1 -> k <= length s ->
    nth p (fill s o c j k len) dot =
      if in5b (j, k, len) (S p) then o else if in3b (j, k, len) (S p) then c else nth p s dot.
Proof.
  induction len as [|len IH]; intros s o c j k p Hj Hk Hn.
  - cbn [fill]. unfold in5b, in3b.
    replace ((j <=? S p) && (S p <? j + 0)) with false
      by (symmetry; apply andb_false_iff; rewrite Nat.leb_gt, Nat.ltb_ge; lia).
    replace ((k <? S p + 0) && (S p <=? k)) with false
      by (symmetry; apply andb_false_iff; rewrite Nat.leb_gt, Nat.ltb_ge; lia).
    reflexivity.
  - cbn [fill]. rewrite IH; [| lia | lia | rewrite !length_set_nth; lia].
    rewrite !nth_set_nth, !length_set_nth. unfold in5b, in3b.
    destruct ((S j <=? S p) && (S p <? S j + len)) eqn:E1;
    destruct ((j <=? S p) && (S p <? j + S len)) eqn:E2;
    destruct ((k - 1 <? S p + len) && (S p <=? k - 1)) eqn:E3;
    destruct ((k <? S p + S len) && (S p <=? k)) eqn:E4;
    destruct ((p =? k - 1) && (k - 1 <? length s)) eqn:E5;
    destruct ((p =? j - 1) && (j - 1 <? length s)) eqn:E6;
    try reflexivity; exfalso; lia.
Qed.

(* ---------------------------------------------------------------- all regions *)

Definition bopen (o : nat) : ascii := match nth_error brackets o with Some (bo, _) => bo | None => dot end.
Definition bclose (o : nat) : ascii := match nth_error brackets o with Some (_, bc) => bc | None => dot end.

Definition cover1 (r : region) (o : nat) (p : nat) : option ascii :=
  if in5b r (S p) then Some (bopen o) else if in3b r (S p) then Some (bclose o) else None.

Fixpoint last_cover (rs : list region) (ord : list nat) (p : nat) : option ascii :=
  match rs, ord with
  | r :: rs', o :: ord' =>
      match last_cover rs' ord' p with Some c => Some c | None => cover1 r o p end
  | _, _ => None
  end.

Lemma make_structure_char : forall rs ord s,
    length ord = length rs ->
    (forall r, In r rs -> rwf (length s) r) ->
    (forall o, In o ord -> o < length brackets) ->
    exists s', make_structure s rs ord = Ok s' /\ length s' = length s /\
               forall p, nth p s' dot = match last_cover rs ord p with Some c => c | None => nth p s dot end.
Proof.
  induction rs as [|[[j k] len] rs IH]; intros ord s Hlen Hwf Hord.
  - exists s. cbn [make_structure last_cover]. auto.
  - destruct ord as [|o ord]; [discriminate|].
    cbn [make_structure].
    assert (Ho : o < length brackets) by (apply Hord; left; reflexivity).
    destruct (nth_error brackets o) as [[bo bc]|] eqn:Eb; [|apply nth_error_None in Eb; lia].
    destruct (Hwf (j, k, len) (or_introl eq_refl)) as (Hj & Hl & Hk & Hn).
    destruct (IH ord (fill s bo bc j k len)) as (s' & E & L & C).
    + cbn [length] in Hlen. lia.
    + intros r Hr. rewrite fill_length. apply Hwf. right. exact Hr.
    + intros o' Ho'. apply Hord. right. exact Ho'.
    + exists s'. split; [exact E|]. split; [rewrite L; apply fill_length|].
      intros p. rewrite C. cbn [last_cover].
      destruct (last_cover rs ord p); [reflexivity|].
      rewrite fill_nth by lia. unfold cover1, bopen, bclose. rewrite Eb.
      destruct (in5b (j, k, len) (S p)); [reflexivity|]. destruct (in3b (j, k, len) (S p)); reflexivity.
Qed.

(* every position is covered by at most one region *)
Definition regions_wf (n : nat) (rs : list region) : Prop :=
  (forall r, In r rs -> rwf n r) /\
  (forall i i' r r' x, nth_error rs i = Some r -> nth_error rs i' = Some r' ->
                       covers r x -> covers r' x -> i = i').

Lemma cover1_none : forall r o p, ~ covers r (S p) -> cover1 r o p = None.
Proof.
  intros r o p H. unfold cover1.
  destruct (in5b r (S p)) eqn:E5; [exfalso; apply H; left; apply in5b_spec; exact E5|].
  destruct (in3b r (S p)) eqn:E3; [exfalso; apply H; right; apply in3b_spec; exact E3|]. reflexivity.
Qed.

Lemma last_cover_none : forall rs ord p,
    (forall r, In r rs -> ~ covers r (S p)) -> last_cover rs ord p = None.
Proof.
  induction rs as [|r rs IH]; intros ord p H; [reflexivity|].
  destruct ord as [|o ord]; [reflexivity|]. cbn [last_cover].
  rewrite IH by (intros r' Hr'; apply H; right; exact Hr').
  apply cover1_none. apply H. left. reflexivity.
Qed.

Lemma last_cover_at : forall rs ord i r o p,
    length ord = length rs ->
    nth_error rs i = Some r -> nth_error ord i = Some o -> covers r (S p) ->
    (forall i' r', nth_error rs i' = Some r' -> covers r' (S p) -> i' = i) ->
    last_cover rs ord p = cover1 r o p.
Proof.
  induction rs as [|r0 rs IH]; intros ord i r o p Hlen Hr Ho Hc Hu.
  - destruct i; discriminate.
  - destruct ord as [|o0 ord]; [discriminate|]. cbn [last_cover].
    destruct i as [|i].
    + cbn in Hr, Ho. injection Hr as ->. injection Ho as ->.
      rewrite last_cover_none; [reflexivity|].
      intros r' Hr' Hc'. apply In_nth_error in Hr'. destruct Hr' as [i' Hi'].
      specialize (Hu (S i') r' Hi' Hc'). discriminate.
    + cbn in Hr, Ho. rewrite (IH ord i r o p); try assumption.
      * destruct (cover1 r o p) eqn:E; [reflexivity|].
        exfalso. unfold cover1 in E. destruct Hc as [H5|H3].
        -- apply in5b_spec in H5. rewrite H5 in E. discriminate.
        -- apply in3b_spec in H3. rewrite H3 in E. destruct (in5b r (S p)); discriminate.
      * cbn [length] in Hlen. lia.
      * intros i' r' Hi' Hc'. specialize (Hu (S i') r' Hi' Hc'). lia.
Qed.

(* ---------------------------------------------------------------- the bracket tables agree *)

Definition bchar_eqb (a b : bchar) : bool :=
  match a, b with
  | Dot, Dot => true
  | Open t, Open u => t =? u
  | Close t, Close u => t =? u
  | _, _ => false
  end.
Lemma bchar_eqb_eq : forall a b, bchar_eqb a b = true -> a = b.
Proof. intros [|t|t] [|u|u] H; try discriminate; try reflexivity; apply Nat.eqb_eq in H; subst; reflexivity. Qed.

(* pin: the encoder's bracket table and the decoder's alphabets denote the same levels *)
Lemma lex_brackets : forall o, o < length brackets -> lex (bopen o) = Open o /\ lex (bclose o) = Close o.
Proof.
  assert (H : forallb (fun o => bchar_eqb (lex (bopen o)) (Open o) && bchar_eqb (lex (bclose o)) (Close o))
                      (seq 0 (length brackets)) = true) by (vm_compute; reflexivity).
  intros o Ho. rewrite forallb_forall in H. specialize (H o). rewrite in_seq in H.
  specialize (H (conj (Nat.le_0_l _) Ho)). apply andb_true_iff in H. destruct H as [H1 H2].
  split; apply bchar_eqb_eq; assumption.
Qed.
Lemma lex_dot : lex dot = Dot.
Proof. vm_compute. reflexivity. Qed.

(* ---------------------------------------------------------------- crossing and properness *)

Definition crossing (r r' : region) : Prop :=
  match r, r' with (k, l, _), (m, n, _) => (k < m /\ m < l /\ l < n) \/ (m < k /\ k < n /\ n < l) end.

Definition proper (rs : list region) (ord : list nat) : Prop :=
  length ord = length rs /\
  forall i i' r r' o o', nth_error rs i = Some r -> nth_error rs i' = Some r' ->
                         nth_error ord i = Some o -> nth_error ord i' = Some o' ->
                         crossing r r' -> o <> o'.

(* pins: the three conflict tests of the source are the crossing relation *)
Lemma conflict_db_spec : forall k l a m n b, conflict_db k l m n = true <-> crossing (k, l, a) (m, n, b).
Proof. intros. unfold conflict_db, crossing. lia. Qed.
Lemma conflict_fcfs_spec : forall k l a m n b, conflict_fcfs k l m n = true <-> crossing (k, l, a) (m, n, b).
Proof. intros. unfold conflict_fcfs, crossing. lia. Qed.
Lemma conflict_all_spec : forall k l a m n b, conflict_all k l m n = true <-> crossing (k, l, a) (m, n, b).
Proof. intros. unfold conflict_all, crossing. lia. Qed.

(* ---------------------------------------------------------------- the written word *)

Definition find_cover (rs : list region) (x : nat) : option region :=
  find (fun r => in5b r x || in3b r x) rs.

Definition mate_of (rs : list region) (p : nat) : nat :=
  match find_cover rs (S p) with
  | Some (j, k, len) => if in5b (j, k, len) (S p) then k - (S p - j) - 1 else j + (k - S p) - 1
  | None => 0
  end.

Section Written.
  Variable n : nat.
  Variable rs : list region.
  Variable ord : list nat.
  Variable s' : list ascii.
  Hypothesis Hwf : regions_wf n rs.
  Hypothesis Hproper : proper rs ord.
  Hypothesis Hlev : forall o, In o ord -> o < length brackets.
  Hypothesis Hs : make_structure (repeat dot n) rs ord = Ok s'.

  Let w := map lex s'.

  Lemma written_char : length s' = n /\
      forall p, nth p s' dot = match last_cover rs ord p with Some c => c | None => dot end.
  Proof.
    destruct Hwf as [W1 W2]. destruct Hproper as [Hlen _].
    destruct (make_structure_char rs ord (repeat dot n) Hlen) as (s1 & E & L & C).
    - intros r Hr. rewrite repeat_length. apply W1. exact Hr.
    - exact Hlev.
    - rewrite Hs in E. injection E as <-. rewrite repeat_length in L. split; [exact L|].
      intros p. rewrite C. destruct (last_cover rs ord p); [reflexivity|].
      destruct (Nat.lt_ge_cases p n) as [Hp|Hp].
      + apply nth_repeat.
      + apply nth_overflow. rewrite repeat_length. exact Hp.
  Qed.

  Lemma w_length : length w = n.
  Proof. unfold w. rewrite map_length. apply written_char. Qed.

  Lemma w_kind : forall p, kind w p = lex (nth p s' dot).
  Proof. intros p. unfold kind, w. rewrite <- lex_dot. apply map_nth. Qed.

  Lemma unique_cover : forall i r p, nth_error rs i = Some r -> covers r (S p) ->
      forall i' r', nth_error rs i' = Some r' -> covers r' (S p) -> i' = i.
  Proof. intros i r p Hi Hc i' r' Hi' Hc'. destruct Hwf as [_ W2]. eapply W2; eassumption. Qed.

  Lemma find_cover_at : forall i r p, nth_error rs i = Some r -> covers r (S p) ->
      find_cover rs (S p) = Some r.
  Proof.
    intros i r p Hi Hc. unfold find_cover.
    destruct (find (fun r0 => in5b r0 (S p) || in3b r0 (S p)) rs) as [r'|] eqn:E.
    - apply find_some in E. destruct E as [Hin Hb].
      apply In_nth_error in Hin. destruct Hin as [i' Hi'].
      assert (Hc' : covers r' (S p)).
      { apply orb_true_iff in Hb. destruct Hb as [H|H]; [left; apply in5b_spec|right; apply in3b_spec]; exact H. }
      pose proof (unique_cover i r p Hi Hc i' r' Hi' Hc') as ->. rewrite Hi in Hi'. exact (eq_sym Hi').
    - exfalso. pose proof (find_none _ _ E r (nth_error_In _ _ Hi)) as Hb. cbn beta in Hb.
      apply orb_false_iff in Hb. destruct Hb as [H5 H3].
      destruct Hc as [H|H]; [apply in5b_spec in H|apply in3b_spec in H]; congruence.
  Qed.

  Lemma ord_at : forall i r, nth_error rs i = Some r -> exists o, nth_error ord i = Some o /\ o < length brackets.
  Proof.
    intros i r Hi. destruct Hproper as [Hlen _].
    assert (Hlt : i < length ord) by (rewrite Hlen; apply nth_error_Some; congruence).
    destruct (nth_error ord i) as [o|] eqn:E; [|apply nth_error_None in E; lia].
    exists o. split; [reflexivity|]. apply Hlev. eapply nth_error_In. exact E.
  Qed.

  Lemma classify : forall p,
      (exists i j k len o, nth_error rs i = Some (j, k, len) /\ nth_error ord i = Some o /\
                           in5 (j, k, len) (S p) /\ kind w p = Open o /\ mate_of rs p = k - (S p - j) - 1) \/
      (exists i j k len o, nth_error rs i = Some (j, k, len) /\ nth_error ord i = Some o /\
                           in3 (j, k, len) (S p) /\ kind w p = Close o /\ mate_of rs p = j + (k - S p) - 1) \/
      kind w p = Dot.
  Proof.
    intros p. destruct written_char as [_ C]. destruct Hproper as [Hlen _].
    destruct (find_cover rs (S p)) as [r|] eqn:E.
    - unfold find_cover in E. pose proof (find_some _ _ E) as [Hin Hb].
      apply In_nth_error in Hin. destruct Hin as [i Hi].
      destruct (ord_at i r Hi) as (o & Ho & Hob).
      destruct (lex_brackets o Hob) as [Lo Lc].
      assert (Hc : covers r (S p)).
      { apply orb_true_iff in Hb. destruct Hb as [H|H]; [left; apply in5b_spec|right; apply in3b_spec]; exact H. }
      assert (Hl : last_cover rs ord p = cover1 r o p).
      { apply (last_cover_at rs ord i r o p Hlen Hi Ho Hc). intros i' r' Hi' Hc'. eapply unique_cover; eassumption. }
      destruct r as [[j k] len].
      destruct (in5b (j, k, len) (S p)) eqn:E5.
      + left. exists i, j, k, len, o. repeat split; try assumption.
        * apply in5b_spec in E5. apply E5.
        * apply in5b_spec in E5. apply E5.
        * rewrite w_kind, C, Hl. unfold cover1. rewrite E5. exact Lo.
        * unfold mate_of, find_cover. rewrite E, E5. reflexivity.
      + right. left. cbn [orb] in Hb. exists i, j, k, len, o. repeat split; try assumption.
        * apply in3b_spec in Hb. apply Hb.
        * apply in3b_spec in Hb. apply Hb.
        * rewrite w_kind, C, Hl. unfold cover1. rewrite E5, Hb. exact Lc.
        * unfold mate_of, find_cover. rewrite E, E5. reflexivity.
    - right. right. rewrite w_kind, C. rewrite last_cover_none; [exact lex_dot|].
      intros r Hr Hc. unfold find_cover in E. pose proof (find_none _ _ E r Hr) as Hb. cbn beta in Hb.
      apply orb_false_iff in Hb. destruct Hb as [H5 H3].
      destruct Hc as [H|H]; [apply in5b_spec in H|apply in3b_spec in H]; congruence.
  Qed.

  Lemma region_rwf : forall i r, nth_error rs i = Some r -> rwf n r.
  Proof. intros i r Hi. destruct Hwf as [W1 _]. apply W1. eapply nth_error_In. exact Hi. Qed.

  (* the position a 5' (3') position is mated with lies in the 3' (5') strand of the same region *)
  Lemma w_open : forall p t, p < n -> kind w p = Open t ->
      p < mate_of rs p /\ mate_of rs p < n /\ kind w (mate_of rs p) = Close t /\ mate_of rs (mate_of rs p) = p.
  Proof.
    intros p t Hp Hk.
    destruct (classify p) as [(i & j & k & len & o & Hi & Ho & H5 & Hk' & Hm)|[(i & j & k & len & o & Hi & Ho & H3 & Hk' & Hm)|Hd]];
      [|congruence|congruence].
    rewrite Hk in Hk'. injection Hk' as ->.
    pose proof (region_rwf i _ Hi) as (Hj & Hl & Hjk & Hkn). cbn [in5] in H5.
    set (q := mate_of rs p) in *.
    assert (Hq3 : in3 (j, k, len) (S q)) by (cbn [in3]; lia).
    destruct (classify q) as [(i' & j' & k' & len' & o' & Hi' & Ho' & H5' & Hk'' & Hm')|[(i' & j' & k' & len' & o' & Hi' & Ho' & H3' & Hk'' & Hm')|Hd]].
    - assert (i' = i) by (eapply (unique_cover i _ q Hi); [right; exact Hq3|exact Hi'|left; exact H5']).
      subst i'. rewrite Hi in Hi'. injection Hi' as <- <- <-. cbn [in5] in H5'. lia.
    - assert (i' = i) by (eapply (unique_cover i _ q Hi); [right; exact Hq3|exact Hi'|right; exact H3']).
      subst i'. rewrite Hi in Hi'. injection Hi' as <- <- <-. rewrite Ho in Ho'. injection Ho' as <-.
      repeat split; try lia. exact Hk''.
    - exfalso. destruct (ord_at i _ Hi) as (o1 & Ho1 & Hb1). destruct written_char as [_ C].
      rewrite w_kind, C in Hd.
      rewrite (last_cover_at rs ord i (j, k, len) o1 q) in Hd; try assumption.
      + unfold cover1 in Hd. apply in3b_spec in Hq3. rewrite Hq3 in Hd.
        destruct (lex_brackets o1 Hb1) as [Lo Lc].
        destruct (in5b (j, k, len) (S q)); congruence.
      + apply Hproper.
      + right. exact Hq3.
      + intros i' r' Hi' Hc'. eapply unique_cover; try eassumption. right. exact Hq3.
  Qed.

  Lemma w_close : forall p t, p < n -> kind w p = Close t ->
      mate_of rs p < p /\ kind w (mate_of rs p) = Open t /\ mate_of rs (mate_of rs p) = p.
  Proof.
    intros p t Hp Hk.
    destruct (classify p) as [(i & j & k & len & o & Hi & Ho & H5 & Hk' & Hm)|[(i & j & k & len & o & Hi & Ho & H3 & Hk' & Hm)|Hd]];
      [congruence| |congruence].
    rewrite Hk in Hk'. injection Hk' as ->.
    pose proof (region_rwf i _ Hi) as (Hj & Hl & Hjk & Hkn). cbn [in3] in H3.
    set (q := mate_of rs p) in *.
    assert (Hq5 : in5 (j, k, len) (S q)) by (cbn [in5]; lia).
    destruct (classify q) as [(i' & j' & k' & len' & o' & Hi' & Ho' & H5' & Hk'' & Hm')|[(i' & j' & k' & len' & o' & Hi' & Ho' & H3' & Hk'' & Hm')|Hd]].
    - assert (i' = i) by (eapply (unique_cover i _ q Hi); [left; exact Hq5|exact Hi'|left; exact H5']).
      subst i'. rewrite Hi in Hi'. injection Hi' as <- <- <-. rewrite Ho in Ho'. injection Ho' as <-.
      repeat split; try lia. exact Hk''.
    - assert (i' = i) by (eapply (unique_cover i _ q Hi); [left; exact Hq5|exact Hi'|right; exact H3']).
      subst i'. rewrite Hi in Hi'. injection Hi' as <- <- <-. cbn [in3] in H3'. lia.
    - exfalso. destruct (ord_at i _ Hi) as (o1 & Ho1 & Hb1). destruct written_char as [_ C].
      rewrite w_kind, C in Hd.
      rewrite (last_cover_at rs ord i (j, k, len) o1 q) in Hd; try assumption.
      + unfold cover1 in Hd. apply in5b_spec in Hq5. rewrite Hq5 in Hd.
        destruct (lex_brackets o1 Hb1) as [Lo Lc]. congruence.
      + apply Hproper.
      + left. exact Hq5.
      + intros i' r' Hi' Hc'. eapply unique_cover; try eassumption. left. exact Hq5.
  Qed.

  (* two pairs written with the same bracket type do not cross: otherwise their regions cross
     and properness gives them different levels *)
  Lemma w_nest : forall p q t, p < n -> q < n -> kind w p = Open t -> kind w q = Open t ->
      p < q -> q < mate_of rs p -> mate_of rs q < mate_of rs p.
  Proof.
    intros p q t Hp Hq Hkp Hkq Hpq Hqm.
    destruct (classify p) as [(i & j & k & len & o & Hi & Ho & H5 & Hk' & Hm)|[(i & j & k & len & o & Hi & Ho & H3 & Hk' & Hm)|Hd]];
      [|congruence|congruence].
    destruct (classify q) as [(i' & j' & k' & len' & o' & Hi' & Ho' & H5' & Hk'' & Hm')|[(i' & j' & k' & len' & o' & Hi' & Ho' & H3' & Hk'' & Hm')|Hd]];
      [|congruence|congruence].
    rewrite Hkp in Hk'. injection Hk' as ->. rewrite Hkq in Hk''. injection Hk'' as ->.
    pose proof (region_rwf i _ Hi) as (Hj & Hl & Hjk & Hkn).
    pose proof (region_rwf i' _ Hi') as (Hj' & Hl' & Hjk' & Hkn').
    cbn [in5] in H5, H5'.
    destruct (Nat.eq_dec i i') as [->|Hne].
    - rewrite Hi in Hi'. injection Hi' as <- <- <-. lia.
    - destruct (Nat.lt_ge_cases (mate_of rs q) (mate_of rs p)) as [Hlt|Hge]; [exact Hlt|exfalso].
      destruct Hwf as [_ W2]. destruct Hproper as [_ P].
      (* j < j' *)
      assert (A1 : j < j').
      { destruct (Nat.lt_ge_cases j j') as [L|G]; [exact L|exfalso]. apply Hne.
        apply (W2 i i' _ _ j Hi Hi'); [left; cbn [in5]; lia|left; cbn [in5]; lia]. }
      (* k < k' *)
      assert (A2 : k < k').
      { destruct (Nat.lt_ge_cases k k') as [L|G]; [exact L|exfalso]. apply Hne.
        assert (mate_of rs q <> mate_of rs p).
        { intros E. apply Hne. apply (W2 i i' _ _ (S (mate_of rs p)) Hi Hi'); [right; cbn [in3]; lia|right; cbn [in3]; lia]. }
        apply (W2 i i' _ _ (S (mate_of rs q)) Hi Hi'); [right; cbn [in3]; lia|right; cbn [in3]; lia]. }
      apply (P i i' _ _ _ _ Hi Hi' Ho Ho'); [|reflexivity].
      cbn [crossing]. left. lia.
  Qed.

  Definition is3 (q : nat) : bool := match find_cover rs (S q) with Some r => negb (in5b r (S q)) | None => false end.
  Definition decoded : list (nat * nat) := map (fun q => (mate_of rs q, q)) (filter is3 (seq 0 n)).

  Lemma is_close_is3 : forall q, is_close w q = is3 q.
  Proof.
    intros q. unfold is_close, is3.
    destruct (classify q) as [(i & j & k & len & o & Hi & Ho & H5 & Hk' & Hm)|[(i & j & k & len & o & Hi & Ho & H3 & Hk' & Hm)|Hd]].
    - rewrite Hk'. rewrite (find_cover_at i _ q Hi (or_introl H5)). apply in5b_spec in H5. rewrite H5. reflexivity.
    - rewrite Hk'. rewrite (find_cover_at i _ q Hi (or_intror H3)).
      pose proof (region_rwf i _ Hi) as (Hj & Hl & Hjk & Hkn). cbn [in3] in H3.
      replace (in5b (j, k, len) (S q)) with false; [reflexivity|].
      symmetry. unfold in5b. lia.
    - rewrite Hd. destruct (find_cover rs (S q)) as [r|] eqn:E; [|reflexivity].
      exfalso. unfold find_cover in E. pose proof (find_some _ _ E) as [Hin Hb].
      apply In_nth_error in Hin. destruct Hin as [i Hi].
      assert (Hc : covers r (S q)).
      { apply orb_true_iff in Hb. destruct Hb as [H|H]; [left; apply in5b_spec|right; apply in3b_spec]; exact H. }
      destruct (ord_at i r Hi) as (o & Ho & Hob). destruct (lex_brackets o Hob) as [Lo Lc].
      destruct written_char as [_ C]. rewrite w_kind, C in Hd.
      rewrite (last_cover_at rs ord i r o q) in Hd; try assumption.
      + unfold cover1 in Hd. destruct (in5b r (S q)); [congruence|]. cbn [orb] in Hb. rewrite Hb in Hd. congruence.
      + apply Hproper.
      + intros i' r' Hi' Hc'. eapply unique_cover; eassumption.
  Qed.

  Theorem written_decodes :
    length s' = n /\ parse_db s' = Ok decoded /\ balanced s' = true.
  Proof.
    split; [apply written_char|].
    destruct (decode_word w (mate_of rs)) as (st' & E & F).
    - intros p t Hp. rewrite w_length in Hp. rewrite w_length. apply w_open. exact Hp.
    - intros p t Hp. rewrite w_length in Hp. apply w_close. exact Hp.
    - intros p q t Hp Hq. rewrite w_length in Hp, Hq. apply w_nest; assumption.
    - assert (Hd : closed_from w (mate_of rs) 0 = decoded).
      { unfold closed_from, decoded. rewrite w_length, Nat.sub_0_r. f_equal.
        apply filter_ext. intros q. apply is_close_is3. }
      unfold parse_db, balanced. rewrite parse_aux_lex. fold w. rewrite E, Hd. split; [reflexivity|].
      apply forallb_forall. intros t _. rewrite F. reflexivity.
  Qed.
End Written.
