(* C08, the clash clause as a whole: among the atoms returned by the clash filter no two (of one model, occupancies known) are within
   the clash distance, and every atom it drops has a close atom of the same model with an occupancy at least as high. *)
From Coq Require Import String Ascii ZArith List Bool Arith Lia.
From RV Require Import Base.Val Base.PyStr Gen.Parser Model.Reader1 Proofs.ListAux Proofs.C08Main.
Import ListNotations.

(* positions p < q of a filtered list come from positions i < j of the list itself, both passing the test *)
Lemma filter_nth_order : forall (A : Type) (P : A -> bool) (l : list A) p q x y,
    nth_error (filter P l) p = Some x -> nth_error (filter P l) q = Some y -> p < q ->
    exists i j, i < j /\ nth_error l i = Some x /\ nth_error l j = Some y /\ P x = true /\ P y = true.
Proof.
  intros A P. induction l as [|a l IH]; intros p q x y Hp Hq Hpq.
  - destruct p; discriminate.
  - cbn [filter] in Hp, Hq. destruct (P a) eqn:Pa.
    + destruct p as [|p].
      * cbn in Hp. injection Hp as <-. destruct q as [|q]; [lia|]. cbn in Hq.
        assert (Hin : In y (filter P l)) by (eapply nth_error_In; exact Hq).
        apply filter_In in Hin. destruct Hin as [Hin Py]. apply In_nth_error in Hin. destruct Hin as [j Hj].
        exists 0, (S j). repeat split; [lia|exact Hj|exact Pa|exact Py].
      * destruct q as [|q]; [lia|]. cbn in Hp, Hq.
        destruct (IH p q x y Hp Hq ltac:(lia)) as (i & j & Hij & Hi & Hj & Px & Py).
        exists (S i), (S j). repeat split; [lia|exact Hi|exact Hj|exact Px|exact Py].
    + destruct (IH p q x y Hp Hq Hpq) as (i & j & Hij & Hi & Hj & Px & Py).
      exists (S i), (S j). repeat split; [lia|exact Hi|exact Hj|exact Px|exact Py].
Qed.

Lemma map_fst_combine_seq : forall (A : Type) (l : list A) s, map fst (combine (seq s (length l)) l) = seq s (length l).
Proof.
  intros A. induction l as [|x l IHl]; intros s; [reflexivity|].
  cbn [length seq combine map fst]. rewrite IHl. reflexivity.
Qed.

Lemma combine_seq_nth_inv : forall (A : Type) (l : list A) k i a,
    nth_error (combine (seq 0 (length l)) l) k = Some (i, a) -> i = k /\ nth_error l k = Some a.
Proof.
  intros A l k i a H.
  assert (Hin : In (i, a) (combine (seq 0 (length l)) l)) by (eapply nth_error_In; exact H).
  assert (Hk : k < length (combine (seq 0 (length l)) l)) by (apply nth_error_Some; congruence).
  rewrite combine_length, seq_length, Nat.min_id in Hk.
  (* the first components are 0, 1, 2, ...: read the k-th *)
  assert (F : nth_error (map fst (combine (seq 0 (length l)) l)) k = Some i) by (rewrite nth_error_map, H; reflexivity).
  rewrite map_fst_combine_seq in F. rewrite nth_error_nth' with (d := 0) in F by (rewrite seq_length; exact Hk).
  rewrite seq_nth in F by exact Hk. injection F as <-. split; [reflexivity|].
  apply in_combine_seq in Hin. destruct Hin as [_ Hin]. rewrite Nat.sub_0_r in Hin. exact Hin.
Qed.

Definition kept (l : list atom1) : list atom1 :=
  map snd (filter (fun ia => negb (existsb (Nat.eqb (fst ia)) (discarded l))) (combine (seq 0 (length l)) l)).

Lemma filter_clashing_kept : forall atoms out, filter_clashing atoms = Ok out -> exists l, dedup atoms = Ok l /\ out = kept l.
Proof.
  intros atoms out H. unfold filter_clashing in H. destruct (dedup atoms) as [l|e]; [|discriminate].
  injection H as <-. exists l. split; reflexivity.
Qed.

Lemma not_discarded : forall l k, negb (existsb (Nat.eqb k) (discarded l)) = true -> ~ In k (discarded l).
Proof.
  intros l k H Hin. apply negb_true_iff in H. assert (existsb (Nat.eqb k) (discarded l) = true).
  { apply existsb_exists. exists k. split; [exact Hin|apply Nat.eqb_refl]. }
  congruence.
Qed.

(* no two returned atoms (one model, occupancies known) are within the clash distance *)
Theorem survivors_apart : forall atoms out p q x y ox oy,
    filter_clashing atoms = Ok out ->
    nth_error out p = Some x -> nth_error out q = Some y -> p < q ->
    (negb clash_filter_per_model || (a1_model x =? a1_model y)%Z) = true ->
    a1_occ x = Some ox -> a1_occ y = Some oy -> close x y = false.
Proof.
  intros atoms out p q x y ox oy H Hp Hq Hpq Hm Ox Oy.
  destruct (filter_clashing_kept atoms out H) as (l & _ & ->). unfold kept in Hp, Hq.
  rewrite nth_error_map in Hp, Hq.
  destruct (nth_error (filter _ _) p) as [[i a]|] eqn:Ep; [|discriminate].
  destruct (nth_error (filter _ _) q) as [[j b]|] eqn:Eq; [|discriminate].
  cbn in Hp, Hq. injection Hp as ->. injection Hq as ->.
  destruct (filter_nth_order _ _ _ p q (i, x) (j, y) Ep Eq Hpq) as (i' & j' & Hij & Hi & Hj & Ki & Kj).
  apply combine_seq_nth_inv in Hi. apply combine_seq_nth_inv in Hj. destruct Hi as [-> Hi], Hj as [-> Hj].
  cbn [fst] in Ki, Kj. apply not_discarded in Ki. apply not_discarded in Kj.
  destruct (close x y) eqn:C; [exfalso|reflexivity].
  pose proof (clash_pair_discarded l i' j' x y ox oy Hi Hj Hij C Hm Ox Oy) as D.
  destruct (oy <? ox)%Z; [exact (Kj D)|exact (Ki D)].
Qed.

(* every dropped index has a reason: another atom within the clash distance (same model when the filter is per model),
   whose occupancy is at least as high *)
Theorem discarded_reason : forall l k, In k (discarded l) ->
    exists m a b oa ob, k <> m /\ nth_error l k = Some a /\ nth_error l m = Some b /\
      (close a b = true \/ close b a = true) /\
      (negb clash_filter_per_model || (a1_model a =? a1_model b)%Z) = true /\
      a1_occ a = Some oa /\ a1_occ b = Some ob /\ (oa <= ob)%Z.
Proof.
  intros l k H. unfold discarded in H. apply in_flat_map in H. destruct H as ([i a] & Hi & H).
  apply in_flat_map in H. destruct H as ([j b] & Hj & H).
  apply in_combine_seq in Hi. apply in_combine_seq in Hj. destruct Hi as [_ Hi], Hj as [_ Hj]. rewrite Nat.sub_0_r in Hi, Hj.
  cbn beta iota in H.
  destruct (i <? j) eqn:L; cbn [andb] in H; [|destruct H].
  destruct (close a b) eqn:C; cbn [andb] in H; [|destruct H].
  destruct (negb clash_filter_per_model || (a1_model a =? a1_model b)%Z) eqn:M; [|destruct H].
  destruct (a1_occ a) as [oa|] eqn:Oa; [|destruct H]. destruct (a1_occ b) as [ob|] eqn:Ob; [|destruct H].
  apply Nat.ltb_lt in L.
  destruct (ob <? oa)%Z eqn:Cmp; destruct H as [<-|[]].
  - (* j dropped: i is the reason *)
    exists i, b, a, ob, oa. repeat split; try assumption; try lia.
    + right. exact C.
    + destruct clash_filter_per_model; cbn [negb orb] in *; [|reflexivity]. rewrite Z.eqb_sym. exact M.
  - exists j, a, b, oa, ob. repeat split; try assumption; try lia.
    + left. exact C.
Qed.

(* non-vacuity: H5' and H5'' 0.3 A apart with equal occupancies (the earlier one goes), a third atom far away *)
Example clash_nonvacuous :
  let mk := fun (nm : string) (x : Z) (o : Z) =>
    {| a1_label := None; a1_auth := Some {| i_chain := L "A"%string; i_number := 5; i_icode := None; i_resname := L "C"%string |};
       a1_model := 1; a1_name := L nm; a1_pos := (x, 0, 0)%Z; a1_occ := Some o; a1_entity := None |} in
  let atoms := [mk "H5'"%string 0%Z 100%Z; mk "H5''"%string 300%Z 100%Z; mk "P"%string 9000%Z 100%Z] in
  close (mk "H5'"%string 0%Z 100%Z) (mk "H5''"%string 300%Z 100%Z) = true /\
  discarded atoms = [0] /\
  filter_clashing atoms = Ok [mk "H5''"%string 300%Z 100%Z; mk "P"%string 9000%Z 100%Z].
Proof. vm_compute. repeat split; reflexivity. Qed.
