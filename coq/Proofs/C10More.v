(* C10, continued: a fitted table satisfies the chain and residue limits; residues are renamed one-to-one inside a chain;
   serials increase strictly from 1. *)
From Coq Require Import String Ascii ZArith List Bool Arith Lia Sorted.
From RV Require Import Base.Val Base.PyStr Gen.ParserV2 Model.Fit Proofs.C20Main Proofs.C10Main.
Import ListNotations.

Lemma res_key_eqb_eq : forall a b, res_key_eqb a b = true <-> a = b.
Proof.
  intros [n1 s1] [n2 s2]. unfold res_key_eqb. cbn [fst snd]. rewrite andb_true_iff, Z.eqb_eq. split.
  - intros [-> H]. apply str_eqb_eq in H. subst. reflexivity.
  - intros H. injection H as -> ->. split; [reflexivity|apply str_eqb_refl].
Qed.

Lemma uniq_res_spec : forall l seen, NoDup seen -> NoDup (uniq_res l seen) /\ forall x, In x (uniq_res l seen) <-> In x seen \/ In x l.
Proof.
  induction l as [|y l IH]; intros seen N; cbn [uniq_res].
  - split; [apply NoDup_rev; exact N|]. intros x. rewrite <- in_rev. split; [auto|intros [H|[]]; exact H].
  - destruct (existsb (res_key_eqb y) seen) eqn:E.
    + destruct (IH seen N) as [A B]. split; [exact A|]. intros x. rewrite B. split; [intros [H|H]; auto; right; right; exact H|].
      intros [H|[<-|H]]; auto. left. apply existsb_exists in E. destruct E as (z & Hz & Ez). apply res_key_eqb_eq in Ez. subst. exact Hz.
    + assert (Ny : ~ In y seen).
      { intros Hin. assert (existsb (res_key_eqb y) seen = true); [|congruence]. apply existsb_exists. exists y. split; [exact Hin|apply res_key_eqb_eq; reflexivity]. }
      destruct (IH (y :: seen) (NoDup_cons y Ny N)) as [A B]. split; [exact A|]. intros x. rewrite B. cbn [In]. intuition.
Qed.

Lemma index_of_res_nth : forall l x, In x l -> nth_error l (index_of_res x l) = Some x /\ index_of_res x l < length l.
Proof.
  induction l as [|y l IH]; intros x H; [destruct H|]. cbn [index_of_res].
  destruct (res_key_eqb x y) eqn:E; [apply res_key_eqb_eq in E; subst; split; [reflexivity|cbn; lia]|].
  destruct H as [<-|H]; [assert (res_key_eqb y y = true) by (apply res_key_eqb_eq; reflexivity); congruence|].
  destruct (IH x H) as [A B]. split; [exact A|cbn; lia].
Qed.

Lemma index_of_str_lt : forall l x, In x l -> index_of_str x l < length l.
Proof.
  induction l as [|y l IH]; intros x H; [destruct H|]. cbn [index_of_str]. destruct (str_eqb x y) eqn:E; [cbn; lia|].
  destruct H as [<-|H]; [rewrite str_eqb_refl in E; discriminate|]. specialize (IH x H). cbn. lia.
Qed.

Lemma renumber_fields : forall l cur last r', In r' (renumber cur last l) ->
    exists r, In r l /\ f_chain r' = f_chain r /\ f_resseq r' = f_resseq r /\ f_icode r' = f_icode r /\ f_id r' = f_id r.
Proof.
  induction l as [|r l IH]; intros cur last r' H; [destruct H|]. cbn [renumber] in H. destruct H as [<-|H].
  - exists r. repeat split. left. reflexivity.
  - destruct (IH _ _ _ H) as (r0 & Hin & Rest). exists r0. split; [right; exact Hin|exact Rest].
Qed.

(* the fitted table satisfies the chain and residue-number limits, and carries no insertion codes *)
Theorem fitted_limits : forall is_pdb t t' r', fit is_pdb t = Fitted t' -> In r' t' ->
    length (f_chain r') = 1 /\ (1 <= f_resseq r' <= max_pdb_residue)%Z /\ f_icode r' = [].
Proof.
  intros is_pdb t t' r' H Hin. unfold fit in H. destruct (fits is_pdb t); [discriminate|].
  destruct (_ <? _)%Z; [discriminate|]. destruct (length chain_alphabet <? length (unique_chains t)) eqn:Ec; [discriminate|].
  destruct (existsb _ (unique_chains t)) eqn:Er; [discriminate|]. injection H as <-. cbv zeta in Hin.
  apply renumber_fields in Hin. destruct Hin as (r0 & Hin & Ech & Ers & Eic & _). apply in_map_iff in Hin. destruct Hin as (r & <- & Hr).
  cbn [f_chain f_resseq f_icode] in *. rewrite Ech, Ers, Eic. clear Ech Ers Eic.
  apply Nat.ltb_ge in Ec.
  destruct (uniq_strs_spec (map f_chain t) [] (NoDup_nil _)) as [_ Mc]. fold (unique_chains t) in Mc.
  assert (Hc : In (f_chain r) (unique_chains t)) by (apply Mc; right; apply in_map; exact Hr).
  split; [|split; [|reflexivity]].
  - unfold new_chain. pose proof (index_of_str_lt _ _ Hc) as L.
    destruct (nth_error chain_alphabet (index_of_str (f_chain r) (unique_chains t))) eqn:E; [reflexivity|]. apply nth_error_None in E. lia.
  - assert (Hk : In (f_resseq r, f_icode r) (residues_of t (f_chain r))).
    { unfold residues_of. apply uniq_res_spec; [constructor|]. right. apply in_map_iff. exists r. split; [reflexivity|]. apply filter_In. split; [exact Hr|apply str_eqb_refl]. }
    destruct (index_of_res_nth _ _ Hk) as [_ L].
    assert (Lim : (Z.of_nat (length (residues_of t (f_chain r))) <= max_pdb_residue)%Z).
    { destruct (max_pdb_residue <? Z.of_nat (length (residues_of t (f_chain r))))%Z eqn:E; [|apply Z.ltb_ge in E; exact E].
      assert (existsb (fun c => (max_pdb_residue <? Z.of_nat (length (residues_of t c)))%Z) (unique_chains t) = true); [|congruence].
      apply existsb_exists. exists (f_chain r). split; [exact Hc|exact E]. }
    lia.
Qed.

(* residues of one chain are renamed one-to-one *)
Theorem residue_renaming_injective : forall t c k1 k2, In k1 (residues_of t c) -> In k2 (residues_of t c) ->
    index_of_res k1 (residues_of t c) = index_of_res k2 (residues_of t c) -> k1 = k2.
Proof.
  intros t c k1 k2 H1 H2 E. destruct (index_of_res_nth _ _ H1) as [A _]. destruct (index_of_res_nth _ _ H2) as [B _]. rewrite E in A. congruence.
Qed.

(* serial numbers of the fitted table increase strictly, starting above the start value *)
Lemma renumber_increasing : forall l cur last, StronglySorted Z.lt (map f_serial (renumber cur last l)) /\ forall r, In r (renumber cur last l) -> (cur < f_serial r)%Z.
Proof.
  induction l as [|r l IH]; intros cur last; cbn [renumber map]; [split; [constructor|intros r []]|]. cbv zeta. cbn [f_serial].
  set (s := (cur + match last with Some c => if str_eqb c (f_chain r) then 0 else 1 | None => 0 end + 1)%Z).
  assert (Hs : (cur < s)%Z) by (unfold s; destruct last as [c|]; [destruct (str_eqb c (f_chain r))|]; lia).
  destruct (IH s (Some (f_chain r))) as [A B]. split.
  - constructor; [exact A|]. apply Forall_forall. intros x Hx. apply in_map_iff in Hx. destruct Hx as (r0 & <- & H0). apply B. exact H0.
  - intros r0 [<-|H0]; [cbn; exact Hs|specialize (B r0 H0); lia].
Qed.

Theorem fitted_serials : forall is_pdb t t', fit is_pdb t = Fitted t' ->
    StronglySorted Z.lt (map f_serial t') /\ forall r, In r t' -> (1 <= f_serial r)%Z.
Proof.
  intros is_pdb t t' H. unfold fit in H. destruct (fits is_pdb t); [discriminate|].
  destruct (_ <? _)%Z; [discriminate|]. destruct (_ <? _); [discriminate|]. destruct (existsb _ _); [discriminate|]. injection H as <-. cbv zeta.
  match goal with |- context [renumber 0 None ?l] => destruct (renumber_increasing l 0%Z None) as [A B] end.
  split; [exact A|]. intros r Hr. specialize (B r Hr). lia.
Qed.
