(* C02 — pins on the MILP shape (theorems in Proofs/C02Main.v to follow). *)
From Coq Require Import String Ascii ZArith List Bool Arith Lia.
From RV Require Import Base.Val Gen.Common Model.Bpseq Model.Milp.
Import ListNotations.

(* pin: objective coefficient is +len on level 0 and -k*len on level k >= 1 *)
Lemma C02_pin_objective : forall o l, (0 <= o)%Z ->
  obj_coef o l = (if Z.eqb o 0 then l else - o * l)%Z.
Proof. intros o l H. unfold obj_coef. destruct (Z.eqb o 0); lia. Qed.
Print Assumptions C02_pin_objective.

(* pin: level bound = maximum degree + 1 *)
Lemma C02_pin_level_bound : max_order_slack = 1 /\ milp_rows_as_modelled = true.
Proof. split; reflexivity. Qed.
Print Assumptions C02_pin_level_bound.
