(* C02 — pseudoknot order assignment is a proper and optimal level assignment.  Property theorems only. *)
From Coq Require Import String Ascii ZArith List Bool Arith Lia.
From RV Require Import Base.Val Gen.Common Model.Bpseq Model.Milp
     Proofs.Encode Proofs.Fcfs Proofs.Colouring Proofs.C02Main.
Import ListNotations.

(* pins: objective coefficient +len on level 0 and -k*len on level k >= 1; level bound = max degree + 1 *)
Theorem C02_pin_objective : forall o l, obj_coef (Z.of_nat o) l = coef o l.
Proof. exact obj_coef_coef. Qed.
Print Assumptions C02_pin_objective.
Lemma C02_pin_level_bound : max_order_slack = 1 /\ milp_rows_as_modelled = true.
Proof. split; reflexivity. Qed.
Print Assumptions C02_pin_level_bound.

(* the formulation: 0/1 points satisfying the rows <-> proper assignments with levels below the bound; objective = score *)
Theorem C02_formulation_sound : forall rs x, feasible rs x = true ->
    properP (adj_db rs) (length rs) (readback rs x) /\ (forall i, i < length rs -> nth i (readback rs x) 0 < max_order rs) /\
    objective rs x = score rs (readback rs x).
Proof. intros rs x H. destruct (feasible_proper rs x H). repeat split; try assumption. apply objective_score. exact H. Qed.
Print Assumptions C02_formulation_sound.

Theorem C02_formulation_complete : forall rs ord, length ord = length rs -> properP (adj_db rs) (length rs) ord ->
    (forall i, i < length rs -> nth i ord 0 < max_order rs) ->
    feasible rs (point_of_ord ord) = true /\ readback rs (point_of_ord ord) = ord.
Proof. exact proper_feasible. Qed.
Print Assumptions C02_formulation_complete.

(* the level bound max degree + 1 loses nothing against assignments with ANY number of levels *)
Theorem C02_level_bound : forall rs ord, length ord = length rs -> properP (adj_db rs) (length rs) ord ->
    exists ord', length ord' = length rs /\ properP (adj_db rs) (length rs) ord' /\
                 (forall i, i < length rs -> nth i ord' 0 < max_order rs) /\ (score rs ord <= score rs ord')%Z.
Proof. exact level_bound. Qed.
Print Assumptions C02_level_bound.

(* if the solver keeps its contract (feasible, objective-maximal among feasible points) the assignment read back is
   proper and maximises the score among ALL proper assignments *)
Theorem C02_optimal : forall rs x, solver_contract rs x ->
    properP (adj_db rs) (length rs) (readback rs x) /\
    forall ord, length ord = length rs -> properP (adj_db rs) (length rs) ord -> (score rs ord <= score rs (readback rs x))%Z.
Proof. exact optimal_among_all. Qed.
Print Assumptions C02_optimal.

Theorem C02_ge_fcfs : forall rs x, solver_contract rs x ->
    forall ordf, fcfs_orders rs = Ok ordf -> (score rs ordf <= score rs (readback rs x))%Z.
Proof. exact ge_fcfs. Qed.
Print Assumptions C02_ge_fcfs.

Theorem C02_stable : forall rs x, solver_contract rs x -> (forall r, In r rs -> (0 < rlen r)%Z) ->
    forall i f, i < length rs -> f < nth i (readback rs x) 0 ->
    ~ (forall j, j < length rs -> adj_db rs i j = true -> nth j (readback rs x) 0 <> f).
Proof. exact stable. Qed.
Print Assumptions C02_stable.

(* non-vacuity: an H-type pseudoknot with unequal stems; the point putting the longer stem on level 0 is feasible *)
Example C02_nonvacuous :
  let rs := [(1, 12, 3); (5, 16, 2)] in
  feasible rs (point_of_ord [0; 1]) = true /\ objective rs (point_of_ord [0; 1]) = 1%Z /\ score rs [1; 0] = (-1)%Z /\ max_order rs = 2.
Proof. vm_compute. repeat split; reflexivity. Qed.
