(* C13 — placeholder until Proofs/C13Main.v lands: the pin on the fallbacks. *)
From Coq Require Import String Ascii ZArith List Bool Arith.
From RV Require Import Base.Val Gen.Common Model.Bpseq Model.Milp.
Import ListNotations.

(* pin: every fallback `return` of convert_to_dot_bracket evaluates to the FCFS dot-bracket *)
Lemma C13_pin_fallbacks : fallback_returns_fcfs = true /\ fallback_count = 3.
Proof. split; reflexivity. Qed.
Print Assumptions C13_pin_fallbacks.
