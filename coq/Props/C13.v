(* C13 — dot-bracket generation survives every solver configuration and solver fault.  Property theorems only. *)
From Coq Require Import String Ascii ZArith List Bool Arith.
From RV Require Import Base.Val Gen.Common Model.Bpseq Model.Spec2D Model.Milp Proofs.C13Main.
Import ListNotations.

(* pin: every fallback `return` of convert_to_dot_bracket evaluates to the FCFS dot-bracket *)
Lemma C13_pin_fallbacks : fallback_returns_fcfs = true /\ fallback_count = 3.
Proof. split; reflexivity. Qed.
Print Assumptions C13_pin_fallbacks.

(* for every configuration (no solver / a solver) and every behaviour (raises, any non-optimal status, optimal with a
   feasible point): a result is returned and it is a lossless encoding.  Guards: the structure needs at most 30 levels. *)
Theorem C13_total_lossless : forall ans b,
    valid b = true -> (exists s0, fcfs b = Ok s0) -> max_order (regions b) <= length brackets ->
    (forall x, ans = Some (Optimal x) -> feasible (regions b) x = true) ->
    exists s, convert ans b = Ok s /\ lossless b s = true.
Proof. exact convert_lossless. Qed.
Print Assumptions C13_total_lossless.

(* whenever the solver cannot deliver an optimal solution the result is the first-come-first-served encoding *)
Theorem C13_fallback_is_fcfs : forall ans b, is_fallback ans = true ->
    (ans = None \/ has_conflict (adj_db (regions b)) (length (regions b)) = true) -> convert ans b = fcfs b.
Proof. exact fallback_is_fcfs. Qed.
Print Assumptions C13_fallback_is_fcfs.

(* non-vacuity: a kissing pattern under every fault kind *)
Example C13_nonvacuous :
  let b := map (fun x => {| idx := fst x; nt := "A"%char; pair := snd x |})
               [(1,7);(2,6);(3,0);(4,9);(5,10);(6,2);(7,1);(8,0);(9,4);(10,5)] in
  valid b = true /\ has_conflict (adj_db (regions b)) (length (regions b)) = true /\
  convert None b = fcfs b /\ convert (Some SolverRaises) b = fcfs b /\ convert (Some NotOptimal) b = fcfs b /\
  exists s, fcfs b = Ok s /\ lossless b s = true.
Proof. vm_compute. repeat split; try reflexivity. eexists. split; reflexivity. Qed.
