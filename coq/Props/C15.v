(* C15 — both reader generations agree: pins and theorems relating the model of parser.py's PDB decoder (Model/Reader1.v,
   columns generated from parser.py) to the model of parser_v2.py's (Model/PdbLine.v, columns generated from parser_v2.py). *)
From Coq Require Import String Ascii ZArith QArith List Bool.
From RV Require Import Base.Val Gen.Torsion Gen.Parser Gen.ParserV2.
Import ListNotations.

(* pin: both residue models test connectivity by exactly the statements "distance = norm(O3' - P); return distance < 1.5 * constant"
   with the same constant: O3'-P below 1.5 * 1.6 = 2.4 A *)
Lemma C15_pin_connectivity : connect_as_modelled = true /\ op_distance_v1 == op_distance_v2 /\ connect_factor * op_distance_v1 == 24 # 10.
Proof. split; [reflexivity | split; vm_compute; reflexivity]. Qed.
Print Assumptions C15_pin_connectivity.

(* pin: both PDB readers slice the same columns for the fields they share *)
Lemma C15_pin_same_columns :
  forallb (fun kv => match find (fun kv2 => String.eqb (fst kv) (fst kv2)) pdb_slices with
                     | Some (_, (a, b)) => (a =? fst (snd kv))%nat && (b =? snd (snd kv))%nat
                     | None => false end) pdb_cols_v1 = true.
Proof. vm_compute. reflexivity. Qed.
Print Assumptions C15_pin_same_columns.

From RV Require Import Base.PyStr Model.Reader1 Model.PdbLine Proofs.C09Main Proofs.C15Main Proofs.C15Written.
Local Close Scope Q_scope.

(* on every line the residue-level reader decodes, the table-level reader reports the same chain, number, insertion
   code, residue name, atom name, coordinates, occupancy and model (its text fields are the stripped ones) *)
Theorem C15_line_agreement : forall m line a, decode_pdb_atom m line = Ok a -> agree a (parse_atom_line m line).
Proof. exact readers_agree_on_line. Qed.
Print Assumptions C15_line_agreement.

(* and where the table-level reader finds every number on a line of at least 27 columns, the residue-level reader decodes it *)
Theorem C15_line_converse : forall m line,
    p_resseq (parse_atom_line m line) <> None -> p_x (parse_atom_line m line) <> None -> p_y (parse_atom_line m line) <> None ->
    p_z (parse_atom_line m line) <> None -> p_occ (parse_atom_line m line) <> None -> 27 <= length line ->
    exists a, decode_pdb_atom m line = Ok a.
Proof. exact reader1_decodes_when_reader2_does. Qed.
Print Assumptions C15_line_converse.

(* whole files whose lines are regular (the record-type column and the line prefix agree) *)
Theorem C15_file_agreement : forall lines m l, forallb regular lines = true -> decode_pdb m lines = Ok l ->
    Forall2 agree l (parse_lines m lines).
Proof. exact readers_agree_on_file. Qed.
Print Assumptions C15_file_agreement.

(* files written by write_pdb are regular, and both readers return the written atoms *)
Theorem C15_written_files : forall l l1, (forall a, In a l -> row_ok a = true) ->
    decode_pdb 1 (write_pdb l) = Ok l1 -> Forall2 agree l1 (map (fun a => expected (ar_model a) a) l).
Proof. exact both_readers_on_written_file. Qed.
Print Assumptions C15_written_files.
