(* C15 — pins (theorems in Proofs/C15Main.v to follow). *)
From Coq Require Import String Ascii ZArith QArith List Bool.
From RV Require Import Base.Val Gen.Torsion Gen.Parser Gen.ParserV2.
Import ListNotations.

(* pin: both residue models test connectivity with the same constant: O3'-P below 1.5 * 1.6 = 2.4 A *)
Lemma C15_pin_connectivity : op_distance_v1 == op_distance_v2 /\ connect_factor * op_distance_v1 == 24 # 10.
Proof. split; vm_compute; reflexivity. Qed.
Print Assumptions C15_pin_connectivity.

(* pin: both PDB readers slice the same columns for the fields they share *)
Lemma C15_pin_same_columns :
  forallb (fun kv => match find (fun kv2 => String.eqb (fst kv) (fst kv2)) pdb_slices with
                     | Some (_, (a, b)) => (a =? fst (snd kv))%nat && (b =? snd (snd kv))%nat
                     | None => false end) pdb_cols_v1 = true.
Proof. vm_compute. reflexivity. Qed.
Print Assumptions C15_pin_same_columns.
