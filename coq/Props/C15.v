(* C15 — both reader generations agree: pins and theorems relating the model of parser.py's PDB decoder (Model/Reader1.v,
   columns generated from parser.py) to the model of parser_v2.py's (Model/PdbLine.v, columns generated from parser_v2.py). *)
From Coq Require Import String Ascii ZArith QArith List Bool.
From RV Require Import Base.Val Gen.Torsion Gen.Parser Gen.ParserV2.
Import ListNotations.

(* pin: both residue models test connectivity by exactly the statements "distance = norm(O3' - P); return distance < 1.5 * constant"
   with the same constant: O3'-P below 1.5 * 1.6 = 2.4 A *)
Lemma C15_pin_connectivity : connect_as_modelled = true /\ op_distance_v1 == op_distance_v2 /\ connect_factor * op_distance_v1 == 24 # 10.
Proof. split; [reflexivity | split; vm_compute; reflexivity]. Qed.
Print Assumptions C15_pin_connectivity.

(* pin: the table-level reader groups atoms into residues by (chain, number, insertion code) in both formats *)
Lemma C15_pin_group_keys :
  v2_group_key_pdb = ["chainID"; "resSeq"; "iCode"]%string /\
  v2_group_key_cif_auth = ["auth_asym_id"; "auth_seq_id"; "pdbx_PDB_ins_code"]%string /\
  v2_group_key_cif_label = ["label_asym_id"; "label_seq_id"; "pdbx_PDB_ins_code"]%string.
Proof. repeat split; reflexivity. Qed.
Print Assumptions C15_pin_group_keys.

(* pin: both PDB readers slice the same columns for the fields they share *)
Lemma C15_pin_same_columns :
  forallb (fun kv => match find (fun kv2 => String.eqb (fst kv) (fst kv2)) pdb_slices with
                     | Some (_, (a, b)) => (a =? fst (snd kv))%nat && (b =? snd (snd kv))%nat
                     | None => false end) pdb_cols_v1 = true.
Proof. vm_compute. reflexivity. Qed.
Print Assumptions C15_pin_same_columns.

From Coq Require Import Permutation.
From RV Require Import Base.PyStr Model.Reader1 Model.PdbLine Model.Group2 Proofs.C09Main Proofs.C15Main Proofs.C15Written Proofs.C15Group Proofs.C15Segments.
Local Close Scope Q_scope.

(* on every line the residue-level reader decodes, the table-level reader reports the same chain, number, insertion
   code, residue name, atom name, coordinates, occupancy and model (its text fields are the stripped ones) *)
Theorem C15_line_agreement : forall m line a, decode_pdb_atom m line = Ok a -> agree a (parse_atom_line m line).
Proof. exact readers_agree_on_line. Qed.
Print Assumptions C15_line_agreement.

(* and where the table-level reader finds every number on a line of at least 27 columns, the residue-level reader decodes it *)
Theorem C15_line_converse : forall m line,
    p_resseq (parse_atom_line m line) <> None -> p_x (parse_atom_line m line) <> None -> p_y (parse_atom_line m line) <> None ->
    p_z (parse_atom_line m line) <> None -> p_occ (parse_atom_line m line) <> None -> 27 <= length line ->
    exists a, decode_pdb_atom m line = Ok a.
Proof. exact reader1_decodes_when_reader2_does. Qed.
Print Assumptions C15_line_converse.

(* whole files whose lines are regular (the record-type column and the line prefix agree) *)
Theorem C15_file_agreement : forall lines m l, forallb regular lines = true -> decode_pdb m lines = Ok l ->
    Forall2 agree l (parse_lines m lines).
Proof. exact readers_agree_on_file. Qed.
Print Assumptions C15_file_agreement.

(* files written by write_pdb are regular, and both readers return the written atoms *)
Theorem C15_written_files : forall l l1, (forall a, In a l -> row_ok a = true) ->
    decode_pdb 1 (write_pdb l) = Ok l1 -> Forall2 agree l1 (map (fun a => expected (ar_model a) a) l).
Proof. exact both_readers_on_written_file. Qed.
Print Assumptions C15_written_files.

(* residues of the table-level reader (groupby on the key), for EVERY table, contiguous or not: each residue is all
   rows carrying the key of its first row, in table order; every row's residue is listed; no key is listed twice; the
   residues partition the table *)
Theorem C15_v2_residues : forall rows,
    (forall g, In g (residues_v2 rows) -> exists h, In h rows /\ g = filter (key2_eqb h) rows) /\
    (forall x, In x rows -> In (filter (key2_eqb x) rows) (residues_v2 rows)) /\
    ForallOrdPairs (fun g h => forall x y, In x g -> In y h -> rkey2 x <> rkey2 y) (residues_v2 rows) /\
    Permutation (concat (residues_v2 rows)) rows.
Proof. exact residues_v2_spec. Qed.
Print Assumptions C15_v2_residues.

(* both readers report the same residues, in the same order, each with the same atoms in the same order, on every regular
   PDB file whose residues are contiguous and in which no (chain, number, insertion code) key is shared by two identities
   of the residue-level reader (one residue name per key, one model, chain ids distinct after stripping) *)
Theorem C15_same_residues : forall lines m l, forallb regular lines = true -> decode_pdb m lines = Ok l ->
    let rows := combine l (parse_lines m lines) in
    (forall x y, In x rows -> In y rows -> key2_eqb (snd x) (snd y) = true -> same_residue (fst x) (fst y) = true) ->
    contiguous (fun x y => key2_eqb (snd x) (snd y)) rows ->
    exists G, Reader1.group l = map (map fst) G /\ residues_v2 (parse_lines m lines) = map (map snd) G /\
              concat G = rows /\ Forall (Forall (fun x => agree (fst x) (snd x))) G.
Proof. exact file_same_residues. Qed.
Print Assumptions C15_same_residues.

(* connected segments of a chain (tertiary_v2.connected_residues), for every O3'-P test `conn`: the residues in order are cut
   exactly where the test fails (never elsewhere), inside a piece every residue is connected to the next, nothing is
   reordered, and only one-residue pieces are dropped *)
Theorem C15_segments : forall (R : Type) (conn : R -> R -> bool) rs,
    segments conn rs = filter long (runs_go conn [] rs) /\ concat (runs_go conn [] rs) = rs /\
    Forall (linked conn) (runs_go conn [] rs) /\ cuts_ok conn (runs_go conn [] rs) /\
    Forall (fun s => 2 <= length s /\ linked conn s) (segments conn rs).
Proof. exact @segments_spec. Qed.
Print Assumptions C15_segments.

(* the hypotheses of C15_same_residues hold on a written three-residue file (one residue with an insertion code) *)
Theorem C15_same_residues_nonvacuous :
  forallb regular example_file = true /\
  exists l, decode_pdb 1 example_file = Ok l /\ length (Reader1.group l) = 3 /\
    let rows := combine l (parse_lines 1 example_file) in
    (forall x y, In x rows -> In y rows -> key2_eqb (snd x) (snd y) = true -> same_residue (fst x) (fst y) = true) /\
    contiguous (fun x y => key2_eqb (snd x) (snd y)) rows.
Proof. exact same_residues_nonvacuous. Qed.
Print Assumptions C15_same_residues_nonvacuous.
