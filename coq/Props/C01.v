(* C01 — property theorems only; proofs live in Proofs/. *)
From Coq Require Import String Ascii ZArith List Bool Arith.
From RV Require Import Base.Val Gen.Common Model.Bpseq Model.Spec2D.
Import ListNotations.

Lemma C01_pin_alphabet_sizes : length opening = 30 /\ length closing = 30 /\ length brackets = 30 /\ fcfs_levels = 30.
Proof. repeat split; reflexivity. Qed.
Print Assumptions C01_pin_alphabet_sizes.
