(* C01 — BPSEQ <-> dot-bracket conversion is lossless for every encoder.
   Property theorems only; proofs live in Proofs/. *)
From Coq Require Import String Ascii ZArith List Bool Arith.
From RV Require Import Base.Val Gen.Common Model.Bpseq Model.Spec2D
     Proofs.Stack Proofs.Encode Proofs.Fcfs Proofs.Regions Proofs.C01Main.
Import ListNotations.

(* pins: the alphabet sizes the property names *)
Lemma C01_pin_alphabet_sizes :
  length opening = 30 /\ length closing = 30 /\ length brackets = 30 /\ fcfs_levels = 30.
Proof. repeat split; reflexivity. Qed.
Print Assumptions C01_pin_alphabet_sizes.

(* pins: the source's three crossing tests are the crossing relation k<m<l<n \/ m<k<n<l *)
Theorem C01_pin_conflict_tests : forall k l a m n b,
  (conflict_db k l m n = true <-> crossing (k, l, a) (m, n, b)) /\
  (conflict_fcfs k l m n = true <-> crossing (k, l, a) (m, n, b)) /\
  (conflict_all k l m n = true <-> crossing (k, l, a) (m, n, b)).
Proof. intros. split; [apply conflict_db_spec|split; [apply conflict_fcfs_spec|apply conflict_all_spec]]. Qed.
Print Assumptions C01_pin_conflict_tests.

(* the regions (stems) of every valid structure: each position lies in at most one strand *)
Theorem C01_regions_wf : forall b, valid b = true -> regions_wf (length b) (regions b).
Proof. exact regions_of_valid_wf. Qed.
Print Assumptions C01_regions_wf.

(* every proper level assignment below 30 levels yields a string of the right length, over the
   alphabet, balanced per type, that decodes to exactly the pairs of the structure *)
Theorem C01_encode_decode : forall b ord,
    valid b = true -> proper (regions b) ord -> (forall o, In o ord -> o < length brackets) ->
    exists s, make_db b (regions b) ord = Ok s /\
              length s = length b /\ parse_db s = Ok (pairs0 b) /\ balanced s = true /\
              forallb in_alphabet s = true /\ lossless b s = true.
Proof. exact encode_decode. Qed.
Print Assumptions C01_encode_decode.

(* the checker applied to every implementation output means what the property says *)
Theorem C01_checker_sound : forall b s, lossless b s = true ->
    length s = length b /\ forallb in_alphabet s = true /\ balanced s = true /\ parse_db s = Ok (pairs0 b).
Proof. exact lossless_sound. Qed.
Print Assumptions C01_checker_sound.

(* FCFS assigns levels properly ... *)
Theorem C01_fcfs_proper : forall rs ord, fcfs_orders rs = Ok ord ->
    proper rs ord /\ Forall (fun o => o < fcfs_levels) ord.
Proof. exact fcfs_orders_proper. Qed.
Print Assumptions C01_fcfs_proper.

(* ... hence its dot-bracket is lossless ... *)
Theorem C01_fcfs_lossless : forall b s, valid b = true -> fcfs b = Ok s -> lossless b s = true.
Proof. exact fcfs_lossless. Qed.
Print Assumptions C01_fcfs_lossless.

(* ... and when more than 30 levels would be needed it refuses (StopIteration), never a wrong string *)
Theorem C01_level_overflow : forall b e, valid b = true -> fcfs b = Raise e -> e = StopIteration.
Proof. exact fcfs_refuses_cleanly. Qed.
Print Assumptions C01_level_overflow.

(* ------------------------------------------------------------------ the converse direction *)
From RV Require Import Proofs.C01Parse Proofs.C01FromDb.

(* whatever string the decoder accepts: openers before closers inside the string, every position in at most one pair,
   pairs listed by increasing closing position *)
Theorem C01_decoded_pairs_wellformed : forall s ps, parse_db s = Ok ps -> wellformed_pairs (length s) ps.
Proof. exact parse_db_wellformed. Qed.
Print Assumptions C01_decoded_pairs_wellformed.

(* dot-bracket -> BPSEQ -> dot-bracket: the structure built from any accepted string is valid, has exactly the decoded
   pairs, and every lossless encoding of it (FCFS in particular) decodes to the same pairs again *)
Theorem C01_db_bpseq_db : forall s sq ps, parse_db s = Ok ps -> length sq = length s ->
    let b := from_db sq ps in
    valid b = true /\ pairs0 b = ps /\
    (forall s', lossless b s' = true -> parse_db s' = Ok ps) /\
    (forall s', fcfs b = Ok s' -> parse_db s' = Ok ps).
Proof. exact db_bpseq_db. Qed.
Print Assumptions C01_db_bpseq_db.

(* every member of the all-dot-brackets list is a lossless encoding too (with C16: the members are the greedy-stable assignments) *)
From RV Require Import Model.AllDb Proofs.C01AllDb.
Theorem C01_all_db_lossless : forall b L s, valid b = true -> all_db b = Ok L -> In s L -> lossless b s = true.
Proof. exact all_db_members_lossless. Qed.
Print Assumptions C01_all_db_lossless.

(* non-vacuity and the negative example: a kissing pattern; a proper assignment is lossless,
   an improper one (two crossing stems on one level) is not *)
Example C01_nonvacuous :
  let b := map (fun x => {| idx := fst x; nt := "A"%char; pair := snd x |})
               [(1,7);(2,6);(3,0);(4,9);(5,10);(6,2);(7,1);(8,0);(9,4);(10,5)] in
  valid b = true /\ regions b = [(1,7,2);(4,9,1);(5,10,1)] /\
  (exists s, make_db b (regions b) [0;1;2] = Ok s /\ lossless b s = true) /\
  (exists s, make_db b (regions b) [0;1;1] = Ok s /\ lossless b s = false).
Proof. exact improper_loses_pairs. Qed.
