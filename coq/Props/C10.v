(* C10 — pins (theorems in Proofs/C10Main.v to follow). *)
From Coq Require Import String Ascii ZArith List Bool.
From RV Require Import Base.Val Gen.ParserV2 Model.Fit.
Import ListNotations.

Lemma C10_pin_limits : max_pdb_serial = 99999%Z /\ max_pdb_residue = 9999%Z /\ length chain_alphabet = 62.
Proof. repeat split; reflexivity. Qed.
Print Assumptions C10_pin_limits.
