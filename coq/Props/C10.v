(* C10 — fitting to PDB limits, on the model of the algorithm the source spells out (see the known finding for what the
   source currently does on mmCIF tables that need fitting).  Property theorems only. *)
From Coq Require Import String Ascii ZArith List Bool Arith.
From RV Require Import Base.Val Base.PyStr Gen.ParserV2 Model.Fit Proofs.C10Main.
Import ListNotations.

Lemma C10_pin_limits : max_pdb_serial = 99999%Z /\ max_pdb_residue = 9999%Z /\ length chain_alphabet = 62 /\ pdb_limits_as_modelled = true.
Proof. repeat split; reflexivity. Qed.
Print Assumptions C10_pin_limits.

Theorem C10_identity_when_fits : forall is_pdb t, fits is_pdb t = true -> fit is_pdb t = Unchanged.
Proof. exact fits_unchanged. Qed.
Print Assumptions C10_identity_when_fits.

(* atoms keep their order and every field fitting does not touch *)
Theorem C10_frame : forall is_pdb t t', fit is_pdb t = Fitted t' -> map f_id t' = map f_id t /\ length t' = length t.
Proof. exact fitted_frame. Qed.
Print Assumptions C10_frame.

(* chains are renamed one-to-one onto single characters of the 62-symbol alphabet *)
Theorem C10_chain_injective : forall t c1 c2,
    length (unique_chains t) <= length chain_alphabet ->
    In c1 (map f_chain t) -> In c2 (map f_chain t) ->
    new_chain (unique_chains t) c1 = new_chain (unique_chains t) c2 -> c1 = c2.
Proof. exact chain_renaming_injective. Qed.
Print Assumptions C10_chain_injective.
Theorem C10_chain_one_char : forall chains c, length (new_chain chains c) <= 1.
Proof. exact new_chain_one_char. Qed.
Print Assumptions C10_chain_one_char.

From RV Require Import Proofs.C10More.
From Coq Require Import Sorted.

(* the fitted table satisfies the chain and residue limits and carries no insertion code *)
Theorem C10_fitted_limits : forall is_pdb t t' r', fit is_pdb t = Fitted t' -> In r' t' ->
    length (f_chain r') = 1 /\ (1 <= f_resseq r' <= max_pdb_residue)%Z /\ f_icode r' = [].
Proof. exact fitted_limits. Qed.
Print Assumptions C10_fitted_limits.

(* residues of one chain are renamed one-to-one *)
Theorem C10_residue_injective : forall t c k1 k2, In k1 (residues_of t c) -> In k2 (residues_of t c) ->
    index_of_res k1 (residues_of t c) = index_of_res k2 (residues_of t c) -> k1 = k2.
Proof. exact residue_renaming_injective. Qed.
Print Assumptions C10_residue_injective.

(* serials increase strictly from 1 (their upper bound is length + number of chain changes: see DESIGN.md, C10) *)
Theorem C10_fitted_serials : forall is_pdb t t', fit is_pdb t = Fitted t' ->
    StronglySorted Z.lt (map f_serial t') /\ forall r, In r t' -> (1 <= f_serial r)%Z.
Proof. exact fitted_serials. Qed.
Print Assumptions C10_fitted_serials.

From RV Require Import Proofs.C10Serial.

(* serials stay within the limit when every chain is one contiguous block; the source budgets one extra serial per chain
   but spends one per chain *change* (example: interleaved chains exceed the budget) *)
Theorem C10_serial_bound : forall is_pdb t t' r, fit is_pdb t = Fitted t' ->
    chain_changes (map f_chain t) < length (unique_chains t) -> In r t' -> (f_serial r <= max_pdb_serial)%Z.
Proof. exact fitted_serial_bound. Qed.
Print Assumptions C10_serial_bound.

Definition mk (s : Z) (c : string) (n : Z) (ic : string) : frow :=
  {| f_serial := s; f_chain := L c; f_resseq := n; f_icode := L ic; f_id := Z.to_nat s |}.

(* non-vacuity: two long chain names and a large residue number are fitted; 63 chains are refused *)
Example C10_nonvacuous :
  let t := [mk 1 "AA" 10001 ""; mk 2 "AA" 10001 ""; mk 3 "BBB" 5 "A"; mk 4 "BBB" 5 "B"] in
  match fit false t with
  | Fitted t' => map (fun r => (f_serial r, f_chain r, f_resseq r)) t' = [(1%Z, L "A", 1%Z); (2%Z, L "A", 1%Z); (4%Z, L "B", 1%Z); (5%Z, L "B", 2%Z)]
  | _ => False
  end.
Proof. vm_compute. reflexivity. Qed.
