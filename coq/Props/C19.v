(* C19 — pins (theorems in Proofs/C19Main.v to follow). *)
From Coq Require Import String Ascii ZArith List Bool Arith.
From RV Require Import Base.Val Base.PyStr Gen.Common Gen.Adapter Model.Fr3d.
Import ListNotations.

Lemma C19_pin_dssr_membership : dssr_lw_test_is_membership = true.
Proof. reflexivity. Qed.
Print Assumptions C19_pin_dssr_membership.
