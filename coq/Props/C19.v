(* C19 — external-tool output is imported totally and faithfully.  Property theorems only.
   `unify` is GENERATED from adapter.unify_classification on every run (Gen/Adapter.v). *)
From Coq Require Import String Ascii ZArith List Bool Arith.
From RV Require Import Base.Val Base.PyStr Gen.Common Gen.Adapter Model.Fr3d Proofs.C19Main.
Import ListNotations.

Lemma C19_pin_dssr_membership : dssr_lw_test_is_membership = true.
Proof. reflexivity. Qed.
Print Assumptions C19_pin_dssr_membership.

(* no label string whatsoever makes the label function raise *)
Theorem C19_unify_total : forall s, exists r, unify s = Ok r.
Proof. exact unify_total. Qed.
Print Assumptions C19_unify_total.

(* all 18 Leontis-Westhof classes, in all 8 letter-case patterns, with optional 'n' prefix and 'a' suffix (576 labels) *)
Theorem C19_lw_all_cases : length lw_labels = 576 /\
  forallb (fun lc => result_is "base-pair" (snd lc) (unify (fst lc))) lw_labels = true.
Proof. exact lw_all_cases. Qed.
Print Assumptions C19_lw_all_cases.

Theorem C19_stackings : forallb (fun lc => result_is "stacking" (snd lc) (unify (fst lc))) stacking_labels = true.
Proof. exact stackings_all. Qed.
Print Assumptions C19_stackings.

Theorem C19_bph_br_digits :
  forallb (fun lc => result_is "base-phosphate" (snd lc) (unify (fst lc))) (digit_labels "BPh") = true /\
  forallb (fun lc => result_is "base-ribose" (snd lc) (unify (fst lc))) (digit_labels "BR") = true.
Proof. exact bph_br_digits. Qed.
Print Assumptions C19_bph_br_digits.

Theorem C19_unknown_kept_as_other :
  forallb (fun l => match unify (LS l) with Ok (c, None) => str_eqb c (LS "other") | _ => false end)
          [""; "n"; "a"; "cW"; "cWX"; "s36"; "S35"; "xBPh"; "10BR"; "cWWW"; "hello"; "0bph"; "tsz"; "__doc__"]%string = true.
Proof. exact unknown_kept_as_other. Qed.
Print Assumptions C19_unknown_kept_as_other.

(* every line: never raises; with two parsable unit ids exactly one interaction between exactly those residues, filed under
   what the label denotes; otherwise skipped *)
Theorem C19_line_total : forall line, exists r, process_line line = Ok r.
Proof. exact process_line_total. Qed.
Print Assumptions C19_line_total.

Theorem C19_line_faithful : forall line nt1 nt2,
    line_min_fields <= length (split_on (ascii_of_nat 9) line) ->
    parse_unit_id (nth 0 (split_on (ascii_of_nat 9) line) []) = Ok nt1 ->
    parse_unit_id (nth 2 (split_on (ascii_of_nat 9) line) []) = Ok nt2 ->
    exists cat cls, unify (nth 1 (split_on (ascii_of_nat 9) line) []) = Ok (cat, cls) /\
                    process_line line = Ok (Some {| i_category := cat; i_nt1 := nt1; i_nt2 := nt2; i_class := cls |}).
Proof. exact process_line_faithful. Qed.
Print Assumptions C19_line_faithful.

Theorem C19_line_skipped : forall line,
    (length (split_on (ascii_of_nat 9) line) < line_min_fields \/
     (exists e, parse_unit_id (nth 0 (split_on (ascii_of_nat 9) line) []) = Raise e) \/
     (exists e, parse_unit_id (nth 2 (split_on (ascii_of_nat 9) line) []) = Raise e)) ->
    process_line line = Ok None.
Proof. exact process_line_skips. Qed.
Print Assumptions C19_line_skipped.

Theorem C19_listing_total : forall lines, exists l, import_lines lines = Ok l.
Proof. exact import_total. Qed.
Print Assumptions C19_listing_total.

Theorem C19_dssr_total : forall lw, exists r, dssr_lw lw = Ok r.
Proof. exact dssr_lw_total. Qed.
Print Assumptions C19_dssr_total.

(* beyond the swept lengths: every label of seven or more characters, over ANY alphabet, is kept as an 'other' interaction
   (after the optional n prefix and a suffix at least five characters remain; every recognised form has three or four) *)
From RV Require Import Proofs.C19Long.
Theorem C19_long_labels_are_other : forall s, 7 <= length s -> unify s = Ok (LS "other", None).
Proof. exact unify_long. Qed.
Print Assumptions C19_long_labels_are_other.

(* DSSR documents: exactly the pairs whose class is one of the 18 Leontis-Westhof members and whose two names resolve are kept,
   in document order; a name resolves to the FIRST residue whose full name equals the part after the last colon; of a stack
   exactly the consecutive members that both resolve are kept *)
From RV Require Import Proofs.C19Dssr.
Theorem C19_dssr_pairs_exact : forall names pairs, dssr_pairs names pairs = Ok (flat_map (keep names) pairs).
Proof. exact (dssr_pairs_exact eq_refl). Qed.
Print Assumptions C19_dssr_pairs_exact.

Theorem C19_dssr_resolve : forall names s k, dssr_resolve names (Some s) = Some k ->
    exists x, nth_error names k = Some x /\ str_eqb x (last (split_on ":"%char s) []) = true /\
    forall j y, j < k -> nth_error names j = Some y -> str_eqb y (last (split_on ":"%char s) []) = false.
Proof. exact dssr_resolve_spec. Qed.
Print Assumptions C19_dssr_resolve.
