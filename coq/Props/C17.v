(* C17 — pins (theorems in Proofs/C17Main.v to follow). *)
From Coq Require Import String Ascii ZArith QArith List Bool.
From RV Require Import Base.Val Gen.Clash Model.Clash.
Import ListNotations.

Lemma C17_pin_shapes : find_clashes_as_modelled = true /\ report_maxima_are_running_maxima = true.
Proof. split; reflexivity. Qed.
Print Assumptions C17_pin_shapes.

(* pin: the four radii and the MolProbity margin the property names *)
Lemma C17_pin_radii :
  radii = [("C"%string, 3 # 5); ("N"%string, 27 # 50); ("O"%string, 53 # 100); ("P"%string, 47 # 50)] /\ molprobity_margin = 1 # 2.
Proof. split; reflexivity. Qed.
Print Assumptions C17_pin_radii.

(* the neighbour-search radius is large enough for every pair of atom types, in both modes *)
Theorem C17_radius_complete :
  forallb (fun a => forallb (fun b => forallb (fun mp =>
     Qle_bool (snd a + snd b + mp) (query_radius_factor * max_radius + mp)) [0; molprobity_margin]) radii) radii = true.
Proof. vm_compute. reflexivity. Qed.
Print Assumptions C17_radius_complete.
