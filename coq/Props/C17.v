(* C17 — clash detection equals the pairwise van-der-Waals definition.  Property theorems only. *)
From Coq Require Import String Ascii ZArith QArith List Bool Arith.
From RV Require Import Base.Val Base.PyStr Gen.Clash Model.Geom Model.Clash Proofs.C17Main.
Import ListNotations.
Local Close Scope Q_scope.

Lemma C17_pin_shapes : find_clashes_as_modelled = true /\ report_maxima_are_running_maxima = true.
Proof. split; reflexivity. Qed.
Print Assumptions C17_pin_shapes.

Lemma C17_pin_radii :
  radii = [("C"%string, (3 # 5)%Q); ("N"%string, (27 # 50)%Q); ("O"%string, (53 # 100)%Q); ("P"%string, (47 # 50)%Q)] /\ molprobity_margin = (1 # 2)%Q.
Proof. split; reflexivity. Qed.
Print Assumptions C17_pin_radii.

(* the neighbour-search radius 2*max radius (+0.5) is large enough for every pair of atom types, in both modes *)
Theorem C17_radius_complete : forall sa ra sb rb (mp : bool), In (sa, ra) radii -> In (sb, rb) radii ->
    (0 <= ra + rb + (if mp then molprobity_margin else 0))%Q /\
    (ra + rb + (if mp then molprobity_margin else 0) <= query_radius_factor * max_radius + (if mp then molprobity_margin else 0))%Q.
Proof. exact radius_table. Qed.
Print Assumptions C17_radius_complete.

(* for two typed atoms, the answer for a candidate pair is the pairwise definition: option filters, distance <= sum of radii
   (+ margin), occupancy sum 1 unless ignored — the search-radius pre-filter never changes it *)
Theorem C17_candidate_is_definition : forall o a b ca ta cb tb ra rb,
    a_name a = ca :: ta -> a_name b = cb :: tb -> radius_of_char ca = Some ra -> radius_of_char cb = Some rb ->
    clash o a b = Ok (clash_def o ra rb a b).
Proof. exact clash_is_definition. Qed.
Print Assumptions C17_candidate_is_definition.

(* the list: exactly the index pairs i < j whose atoms are considered and answer true ... *)
Theorem C17_listed_iff : forall o l res, clashes_from o 0 l = Ok res ->
    forall i j, In (i, j) res <->
      exists a b, i < j /\ nth_error l i = Some a /\ nth_error l j = Some b /\ pair_ok o a b = true.
Proof. exact listed_iff0. Qed.
Print Assumptions C17_listed_iff.

(* ... each pair once *)
Theorem C17_listed_once : forall o l res, clashes_from o 0 l = Ok res -> NoDup res.
Proof. exact listed_once0. Qed.
Print Assumptions C17_listed_once.

(* the report (clashfinder.main): the running maximum kept per residue pair / chain pair while walking the clash list.
   Every key with a listed clash is reported exactly once; the reported value is the occupancy sum of one of that key's
   listed clashes and no listed clash of that key has a larger sum (sums are non-negative). *)
From RV Require Import Proofs.C17Report.
Theorem C17_report_maxima : forall l, Forall (fun kv => 0 <= snd kv)%Q l ->
    NoDup (map fst (group_max l)) /\
    (forall k, In k (map fst (group_max l)) <-> In k (map fst l)) /\
    (forall k mv, In (k, mv) (group_max l) -> (forall v, In (k, v) l -> v <= mv)%Q /\ exists v, In (k, v) l /\ (v == mv)%Q).
Proof. exact group_max_spec. Qed.
Print Assumptions C17_report_maxima.

(* the CSV and the printed listing group the clashes by chain pair and, inside it, by residue pair: for any two grouping keys
   the grouped listing is a rearrangement of the clash list - every clash once, nothing added *)
From Coq Require Import Permutation.
From RV Require Import Proofs.C17Csv.
Theorem C17_grouped_listing : forall (A : Type) (same_chains same_residues : A -> A -> bool) clashes,
    Permutation (grouped_rows same_chains same_residues clashes) clashes.
Proof. exact @grouped_rows_perm. Qed.
Print Assumptions C17_grouped_listing.
