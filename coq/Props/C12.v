(* C12 — pin on the copy made by without_isolated (history theorem in Proofs/C12Main.v to follow). *)
From Coq Require Import String Ascii ZArith List Bool Arith.
From RV Require Import Base.Val Gen.Common Model.Bpseq Model.Obj.
Import ListNotations.

Lemma C12_pin_fresh_copy : isolated_copy_fresh = true.
Proof. reflexivity. Qed.
Print Assumptions C12_pin_fresh_copy.
