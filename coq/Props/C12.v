(* C12 — secondary-structure objects are pure.  Property theorems only. *)
From Coq Require Import String Ascii ZArith List Bool Arith.
From RV Require Import Base.Val Gen.Common Model.Bpseq Model.Elements Model.Obj Proofs.C12Main.
Import ListNotations.

(* pin: without_isolated edits fresh Entry objects, never the receiver's *)
Lemma C12_pin_fresh_copy : isolated_copy_fresh = true.
Proof. reflexivity. Qed.
Print Assumptions C12_pin_fresh_copy.

(* one step: whatever the state reached so far (related to the pure object list), the machine gives the pure answer
   and stays related — in particular no operation changes what any existing object represents *)
Theorem C12_step : forall dbo, isolated_copy_fresh = true -> forall s ps k o,
    rel dbo s ps ->
    let '(s', a) := step dbo s k o in
    let '(ps', a') := pure_step dbo ps k o in
    a = a' /\ rel dbo s' ps'.
Proof. exact step_refines. Qed.
Print Assumptions C12_step.

(* every finite call sequence over the nine operations, including calls on derived objects: each answer equals the answer
   of the pure function on the original entries (for every dot-bracket oracle, i.e. whatever the MILP path answers) *)
Theorem C12_history : forall dbo, isolated_copy_fresh = true -> forall b h,
    run dbo (init b) h = pure_run dbo [b] h.
Proof. exact history_pure. Qed.
Print Assumptions C12_history.

(* a structure without isolated pairs is returned as it is *)
Theorem C12_without_isolated_identity : forall b, iso_positions b = [] -> without_isolated b = b.
Proof. exact no_iso_identity. Qed.
Print Assumptions C12_without_isolated_identity.

(* non-vacuity: the design's witness ((..)).(...) — a stem of length 2 and an isolated pair — through the history
   [without_isolated; str] *)
Example C12_nonvacuous :
  let b := map (fun x => {| idx := fst x; nt := "A"%char; pair := snd x |})
               [(1,6);(2,5);(3,0);(4,0);(5,2);(6,1);(7,0);(8,12);(9,0);(10,0);(11,0);(12,8)] in
  let dbo := fun b0 => match fcfs b0 with Ok s => s | Raise _ => [] end in
  iso_positions b = [7; 11] /\
  run dbo (init b) [(0, OWithoutIsolated); (0, OStr); (1, OStr)] = pure_run dbo [b] [(0, OWithoutIsolated); (0, OStr); (1, OStr)] /\
  map pair (without_isolated b) = [6;5;0;0;2;1;0;0;0;0;0;0].
Proof. vm_compute. repeat split; reflexivity. Qed.
