(* C12 — secondary-structure objects are pure.  Property theorems only. *)
From Coq Require Import String Ascii ZArith List Bool Arith.
From RV Require Import Base.Val Gen.Common Model.Bpseq Model.Elements Model.Obj Proofs.C12Main.
Import ListNotations.

(* pin: without_isolated edits fresh Entry objects, never the receiver's *)
Lemma C12_pin_fresh_copy : isolated_copy_fresh = true.
Proof. reflexivity. Qed.
Print Assumptions C12_pin_fresh_copy.

(* one step: whatever the state reached so far (related to the pure object list), the machine gives the pure answer
   and stays related — in particular no operation changes what any existing object represents *)
Theorem C12_step : forall dbo, isolated_copy_fresh = true -> forall s ps k o,
    rel dbo s ps ->
    let '(s', a) := step dbo s k o in
    let '(ps', a') := pure_step dbo ps k o in
    a = a' /\ rel dbo s' ps'.
Proof. exact step_refines. Qed.
Print Assumptions C12_step.

(* every finite call sequence over the nine operations, including calls on derived objects: each answer equals the answer
   of the pure function on the original entries (for every dot-bracket oracle, i.e. whatever the MILP path answers) *)
Theorem C12_history : forall dbo, isolated_copy_fresh = true -> forall b h,
    run dbo (init b) h = pure_run dbo [b] h.
Proof. exact history_pure. Qed.
Print Assumptions C12_history.

(* a structure without isolated pairs is returned as it is *)
Theorem C12_without_isolated_identity : forall b, iso_positions b = [] -> without_isolated b = b.
Proof. exact no_iso_identity. Qed.
Print Assumptions C12_without_isolated_identity.

(* removing isolated pairs: the sequence and the numbering stay; the 5'->3' pairs that remain are exactly the entries of the stems
   of length two or more, in order; every entry keeps its partner unless it belongs to a stem of length one *)
From RV Require Import Proofs.C12Iso.
Theorem C12_without_isolated_sequence : forall b,
    map idx (without_isolated b) = map idx b /\ map nt (without_isolated b) = map nt b.
Proof. intros b. split; [exact (wi_idx b)|exact (wi_nt b)]. Qed.
Print Assumptions C12_without_isolated_sequence.

Theorem C12_without_isolated_pairs : forall b, valid b = true ->
    paired53 (without_isolated b) = concat (filter (fun st => 2 <=? length st) (stems b)).
Proof. exact without_isolated_pairs. Qed.
Print Assumptions C12_without_isolated_pairs.

Theorem C12_without_isolated_entries : forall b k e, nth_error b k = Some e ->
    exists e', nth_error (without_isolated b) k = Some e' /\ idx e' = idx e /\ nt e' = nt e /\
               (pair e' = pair e \/ (pair e' = 0 /\ exists e0, In [e0] (stems b) /\ (idx e = idx e0 \/ idx e = pair e0))).
Proof. exact without_isolated_entries. Qed.
Print Assumptions C12_without_isolated_entries.

Example C12_without_isolated_pairs_nonvacuous :
  let b := map (fun x => {| idx := fst x; nt := "A"%char; pair := snd x |})
               [(1,6);(2,5);(3,0);(4,0);(5,2);(6,1);(7,0);(8,12);(9,0);(10,0);(11,0);(12,8)] in
  valid b = true /\ map (fun e => (idx e, pair e)) (paired53 b) = [(1,6);(2,5);(8,12)] /\
  map (fun e => (idx e, pair e)) (paired53 (without_isolated b)) = [(1,6);(2,5)].
Proof. exact without_isolated_pairs_nonvacuous. Qed.

(* removing pseudoknots: the dot-bracket is read with the bracket type kept beside every pair (typed_pairs: the decoder of the
   model with one more component, Proofs/C12Pk.v); the derived structure is rebuilt from exactly the pairs of type 0 -- those
   written "(" ")" -- has the same sequence, is valid, and lists exactly those pairs *)
From RV Require Import Proofs.C12Pk.
Theorem C12_typed_reading : forall db ps0, parse_db db = Ok ps0 -> exists ps, typed_pairs db = Ok ps /\ map snd ps = ps0.
Proof. exact typed_reading_exists. Qed.
Print Assumptions C12_typed_reading.

Theorem C12_without_pseudoknots : forall b db ps, typed_pairs db = Ok ps ->
    parse_db db = Ok (map snd ps) /\
    without_pseudoknots_of b db = Ok (from_db (sequence b) (map snd (filter (fun x => fst x =? 0) ps))).
Proof. exact without_pk_spec. Qed.
Print Assumptions C12_without_pseudoknots.

Theorem C12_without_pseudoknots_result : forall b db ps b', typed_pairs db = Ok ps -> length b = length db ->
    without_pseudoknots_of b db = Ok b' ->
    sequence b' = sequence b /\ valid b' = true /\ pairs0 b' = map snd (filter (fun x => fst x =? 0) ps).
Proof. exact without_pk_result. Qed.
Print Assumptions C12_without_pseudoknots_result.

Example C12_without_pseudoknots_nonvacuous :
  (nth_error opening 0 = Some "("%char /\ nth_error closing 0 = Some ")"%char /\ is_pk "("%char = false /\ is_pk ")"%char = false) /\
  let db := L "((.[[.)).]]" in
  typed_pairs db = Ok [(0, (1, 6)); (0, (0, 7)); (1, (4, 9)); (1, (3, 10))] /\
  parse_db (erase_pk db) = Ok [(1, 6); (0, 7)].
Proof. split; [exact type0_is_round|exact without_pk_nonvacuous]. Qed.

(* non-vacuity: the design's witness ((..)).(...) — a stem of length 2 and an isolated pair — through the history
   [without_isolated; str] *)
Example C12_nonvacuous :
  let b := map (fun x => {| idx := fst x; nt := "A"%char; pair := snd x |})
               [(1,6);(2,5);(3,0);(4,0);(5,2);(6,1);(7,0);(8,12);(9,0);(10,0);(11,0);(12,8)] in
  let dbo := fun b0 => match fcfs b0 with Ok s => s | Raise _ => [] end in
  iso_positions b = [7; 11] /\
  run dbo (init b) [(0, OWithoutIsolated); (0, OStr); (1, OStr)] = pure_run dbo [b] [(0, OWithoutIsolated); (0, OStr); (1, OStr)] /\
  map pair (without_isolated b) = [6;5;0;0;2;1;0;0;0;0;0;0].
Proof. vm_compute. repeat split; reflexivity. Qed.
