(* C09 — PDB write-read round trip and the 80-column layout: pins and theorems about Model.PdbLine, which the
   correspondence check ties to parser_v2.write_pdb / parse_pdb_atoms.  Only `exact`. *)
From Coq Require Import String Ascii ZArith List Bool.
From RV Require Import Base.Val Base.PyStr Gen.ParserV2 Model.PdbLine Proofs.NumStr Proofs.C09Main.
Import ListNotations.

Lemma C09_pin_shapes : pdb_formatter_as_modelled = true /\ ter_before_every_endmdl = true.
Proof. split; reflexivity. Qed.
Print Assumptions C09_pin_shapes.

(* pin: the reader's column slices are the wwPDB columns the formatter fills *)
Lemma C09_pin_slices : pdb_slices =
  [("record_type", (0, 6)); ("serial", (6, 11)); ("name", (12, 16)); ("altLoc", (16, 17)); ("resName", (17, 20)); ("chainID", (21, 22));
   ("resSeq", (22, 26)); ("iCode", (26, 27)); ("x", (30, 38)); ("y", (38, 46)); ("z", (46, 54)); ("occupancy", (54, 60));
   ("tempFactor", (60, 66)); ("element", (76, 78)); ("charge", (78, 80)); ("MODEL", (10, 14))]%string.
Proof. reflexivity. Qed.
Print Assumptions C09_pin_slices.

(* numbers: printing then parsing is the identity, for every integer and every fixed-point value *)
Theorem C09_int_roundtrip : forall v, parse_z (z_str v) = Some v.
Proof. exact parse_z_z_str. Qed.
Print Assumptions C09_int_roundtrip.

Theorem C09_fixed_roundtrip : forall dec v, 1 <= dec -> parse_fixed dec (fixed_body dec v) = Some v.
Proof. exact parse_fixed_body. Qed.
Print Assumptions C09_fixed_roundtrip.

(* an atom record whose fields fit the PDB widths (`fits`, a computable check) is written as exactly 80 columns, the
   concatenation of its 19 fixed-width fields *)
Theorem C09_line_80 : forall a, fits a = true -> length (format_line a) = 80 /\ format_line a = concat (fields a).
Proof. exact line_80. Qed.
Print Assumptions C09_line_80.

Theorem C09_ter_80 : forall s rn ch rs ic, length (z_str (s + 1)) <= 5 -> length (strip rn) <= 3 -> length ch <= 1 -> length (z_str rs) <= 4 -> length ic <= 1 ->
    length (ter_line s rn ch rs ic) = 80.
Proof. exact ter_80. Qed.
Print Assumptions C09_ter_80.

(* reading a written line gives back every field: record type, serial, name, altloc, residue name, chain, number, icode,
   x, y, z (thousandths), occupancy and B (hundredths), element, charge; the model is the reader's current model *)
Theorem C09_line_roundtrip : forall m a, fits a = true -> parse_atom_line m (format_line a) = expected m a.
Proof. exact line_roundtrip. Qed.
Print Assumptions C09_line_roundtrip.

(* whole files: MODEL / TER / ENDMDL / END records are transparent to the reader, models are recovered from the MODEL
   records, and every atom comes back, in order *)
Theorem C09_file_roundtrip : forall l, (forall a, In a l -> row_ok a = true) ->
    parse_pdb (write_pdb l) = map (fun a => expected (ar_model a) a) l.
Proof. exact file_roundtrip. Qed.
Print Assumptions C09_file_roundtrip.

(* non-vacuity: a record with a negative coordinate, a primed atom name, an insertion code and a charge fits *)
Example C09_nonvacuous :
  let a := {| ar_type := L "ATOM"; ar_serial := 99999; ar_name := L "O5'"; ar_alt := L "A"; ar_resname := L "PSU"; ar_chain := L "B";
              ar_resseq := (-12); ar_icode := L "C"; ar_x := (-123456); ar_y := 9999999; ar_z := 0; ar_occ := 100; ar_b := 12345;
              ar_element := L "O"; ar_charge := L "1-"; ar_model := 2 |} in
  row_ok a = true /\ format_line a = L "ATOM  99999  O5'APSU B -12C   -123.4569999.999   0.000  1.00123.45           O1-".
Proof. vm_compute. split; reflexivity. Qed.

(* the record layout of every written file: `render` is, by definition, for every maximal run of atoms with one model number
   MODEL n, then for every maximal run of one chain id inside it the atom lines followed by ONE TER record built from the
   run's last atom, then ENDMDL; and END closes the file.  So MODEL/ENDMDL surround every model and a TER follows every chain. *)
From RV Require Import Proofs.C09Layout.
Theorem C09_record_layout : forall l, write_pdb l = render l.
Proof. exact (write_pdb_layout eq_refl). Qed.
Print Assumptions C09_record_layout.
