(* C09 — pins (codec theorems in Proofs/C09Main.v to follow). *)
From Coq Require Import String Ascii ZArith List Bool.
From RV Require Import Base.Val Gen.ParserV2 Model.PdbLine.
Import ListNotations.

Lemma C09_pin_shapes : pdb_formatter_as_modelled = true /\ ter_before_every_endmdl = true.
Proof. split; reflexivity. Qed.
Print Assumptions C09_pin_shapes.

(* pin: the reader's column slices are the wwPDB columns the formatter fills *)
Lemma C09_pin_slices : pdb_slices =
  [("record_type", (0, 6)); ("serial", (6, 11)); ("name", (12, 16)); ("altLoc", (16, 17)); ("resName", (17, 20)); ("chainID", (21, 22));
   ("resSeq", (22, 26)); ("iCode", (26, 27)); ("x", (30, 38)); ("y", (38, 46)); ("z", (46, 54)); ("occupancy", (54, 60));
   ("tempFactor", (60, 66)); ("element", (76, 78)); ("charge", (78, 80)); ("MODEL", (10, 14))]%string.
Proof. reflexivity. Qed.
Print Assumptions C09_pin_slices.
