(* C06 — pins (theorems in Proofs/C06Main.v to follow). *)
From Coq Require Import String Ascii ZArith List Bool.
From RV Require Import Base.Val Gen.Common Model.Mapping.
Import ListNotations.

Lemma C06_pin_canonical : saenger_canonical = ["XIX"; "XX"; "XXVIII"]%string /\ lw_reverse_perm = [0; 2; 1].
Proof. split; reflexivity. Qed.
Print Assumptions C06_pin_canonical.
