(* C06 — 3D-to-2D mapping: pins and theorems about the conflict-resolution loop of the model (Model/Mapping.v), which the
   correspondence check ties to tertiary.Mapping2D3D.  Only `exact`. *)
From Coq Require Import String Ascii ZArith List Bool Arith.
From RV Require Import Base.Val Base.PyStr Gen.Common Model.Mapping Proofs.C06Main Proofs.C06Bpseq Proofs.C06Rows.
Import ListNotations.

Lemma C06_pin_canonical : saenger_canonical = ["XIX"; "XX"; "XXVIII"]%string /\ lw_reverse_perm = [0; 2; 1].
Proof. split; reflexivity. Qed.
Print Assumptions C06_pin_canonical.

(* the loop ends within |canonical| removals: the fuel the model passes is always enough (no OutOfFuel for any input) *)
Theorem C06_resolution_terminates : forall rs fuel can, length can <= fuel -> exists l, resolve rs fuel can = Ok l.
Proof. exact resolve_terminates. Qed.
Print Assumptions C06_resolution_terminates.

(* every kept pair is one of the canonical input pairs, and no residue is left touched by two distinct pairs *)
Theorem C06_subset_and_conflict_free : forall rs fuel can l, resolve rs fuel can = Ok l ->
    (forall x, In x l -> In x can) /\ conflicted l = None.
Proof. exact resolve_spec. Qed.
Print Assumptions C06_subset_and_conflict_free.

(* a canonical pair that shares no residue with any other pair is kept *)
Theorem C06_keeps_unconflicted : forall rs fuel can l p,
    resolve rs fuel can = Ok l -> In p can -> unconflicted can p -> In p l.
Proof. exact resolve_keeps_unconflicted. Qed.
Print Assumptions C06_keeps_unconflicted.

(* Mapping2D3D.bpseq never raises in the model *)
Theorem C06_bpseq_total : forall fg rs ps, exists b, mapping_bpseq fg rs ps = Ok b.
Proof. exact mapping_bpseq_total. Qed.
Print Assumptions C06_bpseq_total.

(* the numbering: 1..N; the residue entries are the nucleotides in file order with their letters *)
Theorem C06_numbering_indices : forall fg rs,
    map (fun x => fst (fst x)) (numbering fg rs) = seq 1 (length (numbering fg rs)).
Proof. exact numbering_indices. Qed.
Print Assumptions C06_numbering_indices.

Theorem C06_numbering_residues : forall fg rs,
    flat_map (fun x => match snd x with Some ri => [(ri, snd (fst x))] | None => [] end) (numbering fg rs)
    = map (fun ir => (fst ir, m_letter (snd ir))) (nucleotides rs).
Proof. exact numbering_residues. Qed.
Print Assumptions C06_numbering_residues.

(* the derived BPSEQ: numbered 1..N, letters of the numbering, symmetric, every pair from a canonical input pair, every
   unconflicted canonical pair present *)
Theorem C06_bpseq_matching : forall fg rs ps b, mapping_bpseq fg rs ps = Ok b ->
    map (fun e => fst (fst e)) b = seq 1 (length b) /\
    map (fun e => fst e) b = map (fun x => fst x) (numbering fg rs) /\
    symmetric_bpseq b /\
    (forall ix c pr, In (ix, c, pr) b -> pr <> 0 ->
       exists p, In p (canonical_pairs rs ps) /\
                 ((index_of_res' (numbering fg rs) (l_i p) = Some ix /\ index_of_res' (numbering fg rs) (l_j p) = Some pr) \/
                  (index_of_res' (numbering fg rs) (l_i p) = Some pr /\ index_of_res' (numbering fg rs) (l_j p) = Some ix))) /\
    (forall p j k, In p (canonical_pairs rs ps) -> unconflicted (canonical_pairs rs ps) p ->
       index_of_res' (numbering fg rs) (l_i p) = Some j -> index_of_res' (numbering fg rs) (l_j p) = Some k ->
       exists cj ck, In (j, cj, k) b /\ In (k, ck, j) b).
Proof. exact mapping_bpseq_spec. Qed.
Print Assumptions C06_bpseq_matching.

(* lifting: each entry naming two present residues appears, with its reverse, exactly once; dangling entries vanish *)
Theorem C06_lift : forall ps, NoDup (lift ps) /\ forall x, In x (lift ps) <-> exists p, In p ps /\ In x (lifted_of p).
Proof. exact lift_spec. Qed.
Print Assumptions C06_lift.

(* the rows of one LW class: residue-disjoint, non-empty, only pairs of the class, every (i, j) of the class once *)
Theorem C06_rows_of_class : forall rs lifted lw,
    let rows := rows_of_class rs lifted lw in
    let mine := class_pairs rs lifted lw in
    (forall row, In row rows -> row_disjoint row /\ row <> []) /\
    (forall q, In q (concat rows) -> In q mine) /\
    (forall p, In p mine -> In (ij p) (map ij (concat rows))) /\
    NoDup (map ij (concat rows)).
Proof. exact rows_of_class_spec. Qed.
Print Assumptions C06_rows_of_class.

(* every extended row is a symmetric matching as long as the sequence *)
Theorem C06_extended_rows_symmetric : forall fg rs ps lw b, In (lw, b) (extended_rows fg rs ps) ->
    symmetric_bpseq b /\ map (fun e => fst e) b = map (fun x => fst x) (numbering fg rs).
Proof. exact extended_rows_symmetric. Qed.
Print Assumptions C06_extended_rows_symmetric.

(* the strand sequences, concatenated, are the letters of the numbering, placeholders included *)
From RV Require Import Proofs.C06Strands.
Theorem C06_strands_concat : forall fg rs, concat (map snd (strands fg rs)) = letters (numbering fg rs).
Proof. exact strands_concat. Qed.
Print Assumptions C06_strands_concat.

(* the per-strand text (Mapping2D3D.dot_bracket): for every dot-bracket string as long as the numbering - which C01 proves of
   every encoder - the strand records carry the strands' names and sequences, each structure piece is as long as its
   sequence and the pieces concatenate to exactly that dot-bracket string *)
Theorem C06_strand_texts : forall fg rs db, length db = length (letters (numbering fg rs)) ->
    map (fun x => (fst (fst x), snd (fst x))) (strand_texts fg rs db) = strands fg rs /\
    concat (map snd (strand_texts fg rs db)) = db /\
    Forall (fun x => length (snd x) = length (snd (fst x))) (strand_texts fg rs db).
Proof. exact strand_texts_spec. Qed.
Print Assumptions C06_strand_texts.
