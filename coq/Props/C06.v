(* C06 — 3D-to-2D mapping: pins and theorems about the conflict-resolution loop of the model (Model/Mapping.v), which the
   correspondence check ties to tertiary.Mapping2D3D.  Only `exact`. *)
From Coq Require Import String Ascii ZArith List Bool Arith.
From RV Require Import Base.Val Gen.Common Model.Mapping Proofs.C06Main.
Import ListNotations.

Lemma C06_pin_canonical : saenger_canonical = ["XIX"; "XX"; "XXVIII"]%string /\ lw_reverse_perm = [0; 2; 1].
Proof. split; reflexivity. Qed.
Print Assumptions C06_pin_canonical.

(* the loop ends within |canonical| removals: the fuel the model passes is always enough (no OutOfFuel for any input) *)
Theorem C06_resolution_terminates : forall rs fuel can, length can <= fuel -> exists l, resolve rs fuel can = Ok l.
Proof. exact resolve_terminates. Qed.
Print Assumptions C06_resolution_terminates.

(* every kept pair is one of the canonical input pairs, and no residue is left touched by two distinct pairs *)
Theorem C06_subset_and_conflict_free : forall rs fuel can l, resolve rs fuel can = Ok l ->
    (forall x, In x l -> In x can) /\ conflicted l = None.
Proof. exact resolve_spec. Qed.
Print Assumptions C06_subset_and_conflict_free.

(* a canonical pair that shares no residue with any other pair is kept *)
Theorem C06_keeps_unconflicted : forall rs fuel can l p,
    resolve rs fuel can = Ok l -> In p can -> unconflicted can p -> In p l.
Proof. exact resolve_keeps_unconflicted. Qed.
Print Assumptions C06_keeps_unconflicted.
