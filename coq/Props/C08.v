(* C08 — pins (theorems in Proofs/C08Main.v to follow). *)
From Coq Require Import String Ascii ZArith QArith List Bool.
From RV Require Import Base.Val Gen.Parser Model.Reader1.
Import ListNotations.

Lemma C08_pin_per_model : dedup_key_has_model = true /\ clash_filter_per_model = true /\ model_selection_as_modelled = true.
Proof. repeat split; reflexivity. Qed.
Print Assumptions C08_pin_per_model.

Lemma C08_pin_constants : clash_distance = 1 # 2 /\ icode_null_markers = ["?"; "."]%string /\ occupancy_null_markers = ["."; "?"]%string.
Proof. repeat split; reflexivity. Qed.
Print Assumptions C08_pin_constants.
