(* C08 — structure reading preserves atoms, residue identity and the requested model.  Property theorems only. *)
From Coq Require Import String Ascii ZArith QArith List Bool Arith.
From RV Require Import Base.Val Base.PyStr Gen.Parser Model.Geom Model.Reader1 Proofs.C08Main.
Import ListNotations.
Local Close Scope Q_scope.

Lemma C08_pin_per_model : dedup_key_has_model = true /\ clash_filter_per_model = true /\ model_selection_as_modelled = true.
Proof. repeat split; reflexivity. Qed.
Print Assumptions C08_pin_per_model.

Lemma C08_pin_constants : clash_distance = (1 # 2)%Q /\ icode_null_markers = ["?"; "."]%string /\ occupancy_null_markers = ["."; "?"]%string.
Proof. repeat split; reflexivity. Qed.
Print Assumptions C08_pin_constants.

(* the requested model if present (else the first of the file): exactly its atoms, in file order, never another model's *)
Theorem C08_model_exact : forall atoms m, existsb (fun a => (a1_model a =? m)%Z) atoms = true ->
    select_model atoms (Some m) = filter (fun a => (a1_model a =? m)%Z) atoms.
Proof. exact select_model_requested. Qed.
Print Assumptions C08_model_exact.

Theorem C08_never_another_model : forall atoms m a, In a (select_model atoms (Some m)) ->
    existsb (fun a => (a1_model a =? m)%Z) atoms = true -> a1_model a = m.
Proof. exact select_model_never_another. Qed.
Print Assumptions C08_never_another_model.

Theorem C08_default_first : forall atoms model,
    select_model atoms model =
      match chosen_model atoms model with Some m => filter (fun a => (a1_model a =? m)%Z) atoms | None => [] end.
Proof. exact select_model_exact. Qed.
Print Assumptions C08_default_first.

(* duplicates / alternate locations: every (residue identity, model, atom name) is represented exactly once, by an atom of the file;
   atoms of different models are never merged *)
Theorem C08_once : forall atoms l, dedup atoms = Ok l ->
    NoDup (map key_of l) /\ forall k, In k (map key_of l) <-> In k (map key_of atoms).
Proof. exact dedup_once. Qed.
Print Assumptions C08_once.
Theorem C08_nothing_invented : forall atoms l x, dedup atoms = Ok l -> In x l -> In x atoms.
Proof. exact dedup_nothing_invented. Qed.
Print Assumptions C08_nothing_invented.
Theorem C08_dedup_per_model : forall a b, a1_model a <> a1_model b -> same_key a b = false.
Proof. exact dedup_per_model. Qed.
Print Assumptions C08_dedup_per_model.

(* of two atoms of one model closer than 0.5 A (occupancies known) one is discarded: the one with the lower occupancy *)
Theorem C08_clash_one_survivor : forall l i j a b oa ob,
    nth_error l i = Some a -> nth_error l j = Some b -> i < j -> close a b = true ->
    (negb clash_filter_per_model || (a1_model a =? a1_model b)%Z) = true ->
    a1_occ a = Some oa -> a1_occ b = Some ob ->
    In (if (ob <? oa)%Z then j else i) (discarded l).
Proof. exact clash_pair_discarded. Qed.
Print Assumptions C08_clash_one_survivor.

(* the clash clause as a whole: no two returned atoms (one model, occupancies known) are within the clash distance ... *)
From RV Require Import Proofs.C08Clash.
Theorem C08_survivors_apart : forall atoms out p q x y ox oy,
    filter_clashing atoms = Ok out ->
    nth_error out p = Some x -> nth_error out q = Some y -> p < q ->
    (negb clash_filter_per_model || (a1_model x =? a1_model y)%Z) = true ->
    a1_occ x = Some ox -> a1_occ y = Some oy -> close x y = false.
Proof. exact survivors_apart. Qed.
Print Assumptions C08_survivors_apart.

(* ... and an atom is dropped by the clash filter only for a reason: another atom within the clash distance, of the same model,
   whose occupancy is at least as high *)
Theorem C08_discarded_reason : forall l k, In k (discarded l) ->
    exists m a b oa ob, k <> m /\ nth_error l k = Some a /\ nth_error l m = Some b /\
      (close a b = true \/ close b a = true) /\
      (negb clash_filter_per_model || (a1_model a =? a1_model b)%Z) = true /\
      a1_occ a = Some oa /\ a1_occ b = Some ob /\ (oa <= ob)%Z.
Proof. exact discarded_reason. Qed.
Print Assumptions C08_discarded_reason.

(* grouping into residues keeps file order and loses nothing *)
Theorem C08_grouping_file_order : forall atoms, concat (group atoms) = atoms.
Proof. exact group_concat. Qed.
Print Assumptions C08_grouping_file_order.
