(* C16 — first results; the full characterisation lives in Proofs/C16Main.v (to follow). *)
From Coq Require Import String Ascii ZArith List Bool Arith Lia.
From RV Require Import Base.Val Gen.Common Model.Bpseq Model.Milp Model.AllDb.
Import ListNotations.

(* pin: the final list is sorted (deterministic order, also needed by C14) *)
Lemma C16_pin_sorted : alldb_sorted = true.
Proof. reflexivity. Qed.
Print Assumptions C16_pin_sorted.
