(* C16 — the all-dot-brackets list is exactly the set of greedy-stable assignments: pins and theorems about
   Model.AllDb, which the correspondence check ties to BpSeq.all_dot_brackets.  Only `exact`. *)
From Coq Require Import String Ascii ZArith List Bool Arith Lia Permutation.
From RV Require Import Base.Val Gen.Common Model.Bpseq Model.Milp Model.AllDb Proofs.FirstFit Proofs.C16Main.
Import ListNotations.

(* pin: the final list is sorted (deterministic order, also needed by C14) *)
Lemma C16_pin_sorted : alldb_sorted = true.
Proof. reflexivity. Qed.
Print Assumptions C16_pin_sorted.

(* first-fit along any duplicate-free order never runs out of levels *)
Theorem C16_firstfit_total : forall adj perm, exists res, firstfit adj perm = Ok res.
Proof. exact firstfit_total. Qed.
Print Assumptions C16_firstfit_total.

(* ... and gives a proper assignment in which every vertex on level k has a neighbour on every level below k *)
Theorem C16_firstfit_stable : forall adj, (forall i j, adj i j = adj j i) -> (forall i, adj i i = false) ->
    forall perm res, NoDup perm -> firstfit adj perm = Ok res -> coloured_ok adj res /\ map fst res = perm.
Proof. exact firstfit_ok. Qed.
Print Assumptions C16_firstfit_stable.

(* conversely every such assignment is the first-fit result along some order (its vertices sorted by level) *)
Theorem C16_stable_is_firstfit : forall adj (a : assoc), coloured_ok adj a ->
    exists perm a', Permutation perm (map fst a) /\ firstfit adj perm = Ok a' /\ Permutation a' a.
Proof. exact stable_is_firstfit. Qed.
Print Assumptions C16_stable_is_firstfit.

(* the enumeration tries every order *)
Theorem C16_perms : forall c l, In l (perms c) <-> Permutation l c.
Proof. exact perms_iff. Qed.
Print Assumptions C16_perms.

(* one group of crossing stems: the list of its level assignments never fails, has no repetition, and holds exactly the
   greedy-stable assignments of the group *)
Theorem C16_component : forall adj, (forall i j, adj i j = adj j i) -> (forall i, adj i i = false) ->
    forall comp, NoDup comp ->
    exists L, component_colourings adj comp = Ok L /\ NoDup L /\
              forall c, In c L <-> exists a, coloured_ok adj a /\ Permutation (map fst a) comp /\ c = canon a comp.
Proof. exact component_colourings_spec. Qed.
Print Assumptions C16_component.
