(* C16 — the all-dot-brackets list is exactly the set of greedy-stable assignments: pins and theorems about
   Model.AllDb, which the correspondence check ties to BpSeq.all_dot_brackets.  Only `exact`. *)
From Coq Require Import String Ascii ZArith List Bool Arith Lia Permutation.
From RV Require Import Base.Val Gen.Common Model.Bpseq Model.Milp Model.AllDb Proofs.FirstFit Proofs.C16Main.
Import ListNotations.

(* pin: the final list is sorted (deterministic order, also needed by C14) *)
Lemma C16_pin_sorted : alldb_sorted = true.
Proof. reflexivity. Qed.
Print Assumptions C16_pin_sorted.

(* first-fit along any duplicate-free order never runs out of levels *)
Theorem C16_firstfit_total : forall adj perm, exists res, firstfit adj perm = Ok res.
Proof. exact firstfit_total. Qed.
Print Assumptions C16_firstfit_total.

(* ... and gives a proper assignment in which every vertex on level k has a neighbour on every level below k *)
Theorem C16_firstfit_stable : forall adj, (forall i j, adj i j = adj j i) -> (forall i, adj i i = false) ->
    forall perm res, NoDup perm -> firstfit adj perm = Ok res -> coloured_ok adj res /\ map fst res = perm.
Proof. exact firstfit_ok. Qed.
Print Assumptions C16_firstfit_stable.

(* conversely every such assignment is the first-fit result along some order (its vertices sorted by level) *)
Theorem C16_stable_is_firstfit : forall adj (a : assoc), coloured_ok adj a ->
    exists perm a', Permutation perm (map fst a) /\ firstfit adj perm = Ok a' /\ Permutation a' a.
Proof. exact stable_is_firstfit. Qed.
Print Assumptions C16_stable_is_firstfit.

(* the enumeration tries every order *)
Theorem C16_perms : forall c l, In l (perms c) <-> Permutation l c.
Proof. exact perms_iff. Qed.
Print Assumptions C16_perms.

(* one group of crossing stems: the list of its level assignments never fails, has no repetition, and holds exactly the
   greedy-stable assignments of the group *)
Theorem C16_component : forall adj, (forall i j, adj i j = adj j i) -> (forall i, adj i i = false) ->
    forall comp, NoDup comp ->
    exists L, component_colourings adj comp = Ok L /\ NoDup L /\
              forall c, In c L <-> exists a, coloured_ok adj a /\ Permutation (map fst a) comp /\ c = canon a comp.
Proof. exact component_colourings_spec. Qed.
Print Assumptions C16_component.

(* ------------------------------------------------------------------ the whole list *)
From RV Require Import Proofs.C16Comp Proofs.C16Global Proofs.C16Final Proofs.C16Contains Proofs.C02Main.

(* the groups: duplicate-free, closed under crossing, pairwise disjoint, covering every stem that crosses another *)
Theorem C16_groups : forall rs,
    comps_inv (adj_all rs) (length rs) (length rs) (components (adj_all rs) (length rs)).
Proof. intros rs. exact (components_spec (adj_all rs) (length rs) (adj_all_sym rs) (adj_all_lt rs)). Qed.
Print Assumptions C16_groups.

(* the level assignments enumerated (free combination over the groups) are exactly the globally greedy-stable ones, and
   the enumeration never fails *)
Theorem C16_all_orders : forall rs, exists ords, all_orders rs = Ok ords /\
    forall ord, In ord ords <-> length ord = length rs /\ stableP (adj_all rs) (length rs) ord.
Proof. exact all_orders_spec. Qed.
Print Assumptions C16_all_orders.

(* the list equals the independent characterisation, as a value (same strings, same order, same error if any) *)
Theorem C16_is_stable_set : forall b,
    has_conflict (adj_all (regions b)) (length (regions b)) = true -> all_db b = stable_db b.
Proof. exact all_db_is_stable_db. Qed.
Print Assumptions C16_is_stable_set.

Theorem C16_members : forall b L, has_conflict (adj_all (regions b)) (length (regions b)) = true -> all_db b = Ok L ->
    forall s, In s L <-> exists ord, length ord = length (regions b) /\ stableP (adj_all (regions b)) (length (regions b)) ord /\
                                   make_db b (regions b) ord = Ok s.
Proof. exact all_db_members. Qed.
Print Assumptions C16_members.

Theorem C16_no_repetition : forall b L, all_db b = Ok L -> NoDup L.
Proof. exact all_db_nodup. Qed.
Print Assumptions C16_no_repetition.

Theorem C16_contains_fcfs : forall b L s,
    has_conflict (adj_all (regions b)) (length (regions b)) = true -> all_db b = Ok L -> fcfs b = Ok s -> In s L.
Proof. exact fcfs_in_all_db. Qed.
Print Assumptions C16_contains_fcfs.

Theorem C16_contains_optimal : forall b L x s,
    has_conflict (adj_all (regions b)) (length (regions b)) = true -> all_db b = Ok L ->
    solver_contract (regions b) x -> (forall r, In r (regions b) -> (0 < rlen r)%Z) ->
    make_db b (regions b) (readback (regions b) x) = Ok s -> In s L.
Proof. exact optimal_in_all_db. Qed.
Print Assumptions C16_contains_optimal.

Theorem C16_pseudoknot_free_single : forall b, has_conflict (adj_all (regions b)) (length (regions b)) = false ->
    all_db b = match fcfs b with Ok s => Ok [s] | Raise e => Raise e end.
Proof. exact no_conflict_single. Qed.
Print Assumptions C16_pseudoknot_free_single.

Theorem C16_pseudoknot_free_round : forall rs, has_conflict (adj_all rs) (length rs) = false -> fcfs_orders rs = Ok (repeat 0 (length rs)).
Proof. exact no_conflict_fcfs_zero. Qed.
Print Assumptions C16_pseudoknot_free_round.
