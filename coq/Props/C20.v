(* C20 — pins (theorems in Proofs/C20Main.v to follow). *)
From Coq Require Import String Ascii ZArith List Bool Arith.
From RV Require Import Base.Val Gen.Transformer.
Import ListNotations.

Lemma C20_pin_shapes : copy_as_modelled = true /\ replace_as_modelled = true /\ cli_passes_content = true.
Proof. repeat split; reflexivity. Qed.
Print Assumptions C20_pin_shapes.
