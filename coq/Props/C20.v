(* C20 — mmCIF item editing changes only its target.  Property theorems only (document level; the tokenizer is an oracle). *)
From Coq Require Import String Ascii ZArith List Bool Arith.
From RV Require Import Base.Val Base.PyStr Gen.Transformer Model.Bpseq Model.CifDoc Proofs.C20Main.
Import ListNotations.

Lemma C20_pin_shapes : copy_as_modelled = true /\ replace_as_modelled = true /\ cli_passes_content = true.
Proof. repeat split; reflexivity. Qed.
Print Assumptions C20_pin_shapes.

(* a missing category or source item leaves the file untouched (the model returns `None` = the original text) *)
Theorem C20_copy_absent_untouched : forall d cat from to,
    find_cat d cat = None \/ (exists c, find_cat d cat = Some c /\ index_str from (c_attrs c) = None) ->
    copy_item d cat from to = None.
Proof. exact copy_absent_untouched. Qed.
Print Assumptions C20_copy_absent_untouched.
Theorem C20_replace_absent_untouched : forall d cat col values,
    find_cat d cat = None \/ (exists c, find_cat d cat = Some c /\ index_str col (c_attrs c) = None) ->
    replace_item d cat col values = Ok None.
Proof. exact replace_absent_untouched. Qed.
Print Assumptions C20_replace_absent_untouched.

(* every other category is preserved, at its place *)
Theorem C20_copy_frame : forall d cat from to d', copy_item d cat from to = Some d' ->
    length d' = length d /\ forall k c, nth_error d k = Some c -> str_eqb (c_name c) cat = false -> nth_error d' k = Some c.
Proof. exact copy_frame. Qed.
Print Assumptions C20_copy_frame.
Theorem C20_replace_frame : forall d cat col values d' m, replace_item d cat col values = Ok (Some (d', m)) ->
    length d' = length d /\ forall k c, nth_error d k = Some c -> str_eqb (c_name c) cat = false -> nth_error d' k = Some c.
Proof. exact replace_frame. Qed.
Print Assumptions C20_replace_frame.

(* the target category: same name and attributes (the new item appended when absent), rows in order, each rewritten by copy_row ... *)
Theorem C20_copy_target : forall d cat from to d', copy_item d cat from to = Some d' ->
    exists c i j, find_cat d cat = Some c /\ index_str from (c_attrs c) = Some i /\
      let attrs := match index_str to (c_attrs c) with Some _ => c_attrs c | None => c_attrs c ++ [to] end in
      index_str to attrs = Some j /\
      forall k c0, nth_error d k = Some c0 -> str_eqb (c_name c0) cat = true ->
        nth_error d' k = Some {| c_name := c_name c; c_attrs := attrs; c_rows := map (copy_row i j) (c_rows c) |}.
Proof. exact copy_target. Qed.
Print Assumptions C20_copy_target.

(* ... and copy_row sets exactly the target value to the source value (appending it for a new item) *)
Theorem C20_copy_row : forall i j row v, nth_error row i = Some v -> j <= length row ->
    nth_error (copy_row i j row) j = Some v /\
    (forall k, k <> j -> k < length row -> nth_error (copy_row i j row) k = nth_error row k) /\
    length (copy_row i j row) = (if length row =? j then S (length row) else length row).
Proof. exact copy_row_spec. Qed.
Print Assumptions C20_copy_row.

(* replace: rows keep their order and count, exactly item i of each row becomes the image of its value under the returned mapping *)
Theorem C20_replace_rows : forall i values rows m rows' mf,
    replace_rows i values m rows = Ok (rows', mf) ->
    length rows' = length rows /\ (exists ext, mf = m ++ ext) /\
    forall k row, nth_error rows k = Some row ->
      exists v img, nth_error row i = Some v /\ assoc_find v mf = Some img /\ nth_error rows' k = Some (set_nth row i img).
Proof. exact replace_rows_spec. Qed.
Print Assumptions C20_replace_rows.

(* the returned mapping is injective when the substitution alphabet has no repeated character *)
Theorem C20_replace_mapping_injective : forall i values rows rows' mf, NoDup values ->
    replace_rows i values [] rows = Ok (rows', mf) ->
    forall a b kva kvb, nth_error mf a = Some kva -> nth_error mf b = Some kvb -> snd kva = snd kvb -> a = b.
Proof. exact replace_mapping_injective. Qed.
Print Assumptions C20_replace_mapping_injective.

(* non-vacuity: two categories, copy onto a new item and replace with a two-letter alphabet; an alphabet that is too short raises *)
Example C20_nonvacuous :
  let d := [ {| c_name := L "atom_site"; c_attrs := [L "id"; L "label_asym_id"]; c_rows := [[L "1"; L "AA"]; [L "2"; L "B"]; [L "3"; L "AA"]] |};
             {| c_name := L "cell"; c_attrs := [L "a"]; c_rows := [[L "10"]] |} ] in
  (exists d', copy_item d (L "atom_site") (L "label_asym_id") (L "auth_asym_id") = Some d' /\
              map c_rows d' = [[[L "1"; L "AA"; L "AA"]; [L "2"; L "B"; L "B"]; [L "3"; L "AA"; L "AA"]]; [[L "10"]]]) /\
  (exists d' m, replace_item d (L "atom_site") (L "label_asym_id") (L "XY") = Ok (Some (d', m)) /\ m = [(L "AA", L "X"); (L "B", L "Y")]) /\
  replace_item d (L "atom_site") (L "label_asym_id") (L "X") = Raise IndexError.
Proof. vm_compute. repeat split; repeat eexists. Qed.
