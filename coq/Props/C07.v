(* C07 — stems partition the 5'->3' pairs into stacked runs (from the C01 development). *)
From Coq Require Import String Ascii ZArith List Bool Arith Lia.
From RV Require Import Base.Val Gen.Common Model.Bpseq Proofs.Regions.
Import ListNotations.

(* pin: the stem-run test of the source is "next index, previous partner" *)
Theorem C07_pin_run_test : forall e f, continues e f = true <-> idx f = S (idx e) /\ S (pair f) = pair e.
Proof. exact continues_spec. Qed.
Print Assumptions C07_pin_run_test.

(* concatenating the stems gives back every 5'->3' pair, in order: nothing lost, nothing repeated *)
Theorem C07_stems_concat : forall b, concat (stems b) = paired53 b.
Proof. intros b. unfold stems. apply runs_concat. Qed.
Print Assumptions C07_stems_concat.

(* inside a stem consecutive pairs are directly stacked *)
Theorem C07_stems_stacked : forall b st, In st (stems b) -> chain st.
Proof. intros b st H. apply (runs_chain (paired53 b)). exact H. Qed.
Print Assumptions C07_stems_stacked.
