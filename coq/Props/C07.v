(* C07 — stems partition the 5'->3' pairs into stacked runs (from the C01 development). *)
From Coq Require Import String Ascii ZArith List Bool Arith Lia.
From RV Require Import Base.Val Gen.Common Model.Bpseq Proofs.Regions.
Import ListNotations.

(* pin: the stem-run test of the source is "next index, previous partner" *)
Theorem C07_pin_run_test : forall e f, continues e f = true <-> idx f = S (idx e) /\ S (pair f) = pair e.
Proof. exact continues_spec. Qed.
Print Assumptions C07_pin_run_test.

(* concatenating the stems gives back every 5'->3' pair, in order: nothing lost, nothing repeated *)
Theorem C07_stems_concat : forall b, concat (stems b) = paired53 b.
Proof. intros b. unfold stems. apply runs_concat. Qed.
Print Assumptions C07_stems_concat.

(* inside a stem consecutive pairs are directly stacked *)
Theorem C07_stems_stacked : forall b st, In st (stems b) -> chain st.
Proof. intros b st H. apply (runs_chain (paired53 b)). exact H. Qed.
Print Assumptions C07_stems_stacked.

(* ------------------------------------------------------------------ elements *)
From RV Require Import Model.AllDb Model.Elements Proofs.C07Main.
From Coq Require Import Sorted.

(* maximal: two consecutive stems cannot be merged *)
Theorem C07_stems_maximal : forall b, LocallySorted not_mergeable (stems b).
Proof. intros b. exact (runs_maximal (paired53 b)). Qed.
Print Assumptions C07_stems_maximal.

(* a stem's two strands: faithful slices with mirrored pairing, 5' strand entirely before the 3' strand *)
Theorem C07_stem_strands : forall b, valid b = true -> forall db st e0, In st (stems b) -> nth_error st 0 = Some e0 ->
    let s5 := fst (stem_of b db st) in
    let s3 := snd (stem_of b db st) in
    let len := length st in
    strand_faithful b db s5 /\ strand_faithful b db s3 /\
    s_first s5 = idx e0 /\ s_last s5 = idx e0 + len - 1 /\ s_first s3 = pair e0 - len + 1 /\ s_last s3 = pair e0 /\
    (forall t, t < len -> pair_at b (idx e0 + t) = pair e0 - t) /\
    idx e0 + len - 1 < pair e0 - len + 1.
Proof. exact stem_strands. Qed.
Print Assumptions C07_stem_strands.

(* every strand of every reported element has the sequence and structure text of its slice first..last *)
Theorem C07_strands_faithful : forall b db, valid b = true ->
    let E := elements b db in
    (forall p, In p (el_stems E) -> strand_faithful b db (fst p) /\ strand_faithful b db (snd p)) /\
    (forall x, In x (el_single E) -> strand_faithful b db (fst (fst x))) /\
    (forall s, In s (el_hairpins E) -> strand_faithful b db s) /\
    (forall l s, In l (el_loops E) -> In s l -> strand_faithful b db s).
Proof. exact elements_faithful. Qed.
Print Assumptions C07_strands_faithful.

(* a reported hairpin is a pair enclosing only unpaired nucleotides *)
Theorem C07_hairpins_sound : forall b db, valid b = true -> forall s, In s (el_hairpins (elements b db)) ->
    pair_at b (s_first s) = s_last s /\ interior_free b s /\ s_first s < s_last s.
Proof. exact hairpins_sound. Qed.
Print Assumptions C07_hairpins_sound.

(* a reported loop: at least two strands, consecutive ends base-paired, closed, interiors unpaired *)
Theorem C07_loops_sound : forall b db, valid b = true -> forall loop, In loop (el_loops (elements b db)) ->
    2 <= length loop /\ linked b loop /\
    (exists s0, hd_error loop = Some s0 /\ pair_at b (s_first s0) = s_last (last loop s0)) /\
    (forall s, In s loop -> interior_free b s).
Proof. exact loops_sound. Qed.
Print Assumptions C07_loops_sound.

(* ------------------------------------------------------------------ completeness *)
From RV Require Import Proofs.C07Complete Proofs.C07Cover.

(* every pair enclosing only unpaired nucleotides is reported as a hairpin (with C07_hairpins_sound: exactly those) *)
Theorem C07_hairpins_complete : forall b, valid b = true -> forall db i j, 1 <= i -> i < j -> pair_at b i = j ->
    (forall k, i < k < j -> pair_at b k = 0) -> In (strand_of (slice b (i - 1) j) db) (el_hairpins (elements b db)).
Proof. exact hairpins_complete. Qed.
Print Assumptions C07_hairpins_complete.

(* every unpaired nucleotide of a structure with at least one pair lies inside a single strand, a hairpin or a loop strand *)
Theorem C07_unpaired_covered : forall b, valid b = true -> forall db, stems b <> [] ->
    forall k, 1 <= k <= length b -> pair_at b k = 0 -> covered (elements b db) k.
Proof. exact unpaired_covered. Qed.
Print Assumptions C07_unpaired_covered.

(* ... and in exactly one: counting, over everything `elements` reports (5'/3' tails, unlinked strands, hairpins, the
   strands of all loops), the strands that have the unpaired nucleotide k in their interior gives 1.  In particular no loop
   candidate is used twice by the loop search, in the same loop or in two loops. *)
From RV Require Import Proofs.C07Once.
Theorem C07_unpaired_exactly_once : forall b, valid b = true -> forall db, stems b <> [] ->
    forall k, 1 <= k <= length b -> pair_at b k = 0 -> times_covered (elements b db) k = 1.
Proof. exact unpaired_covered_once. Qed.
Print Assumptions C07_unpaired_exactly_once.

Theorem C07_loop_strands_used_once : forall b lc, NoDup (map s_first lc) -> (forall s, In s lc -> pair_at b (s_first s) <> s_last s) ->
    NoDup (snd (loops_of b lc)) /\ incl (snd (loops_of b lc)) lc.
Proof. exact used_once. Qed.
Print Assumptions C07_loop_strands_used_once.
