(* C18 — torsion angles: what both implementations hand to atan2 (theorems over the reals). *)
From Coq Require Import Reals String ZArith List.
Import ListNotations.
From RV Require Import Gen.Torsion Model.Geom Proofs.TorsionR.
Open Scope R_scope.

(* pins: both functions consist of exactly the modelled statements *)
Lemma C18_pin_shapes : torsion_v1_as_modelled = true /\ torsion_v2_as_modelled = true.
Proof. split; reflexivity. Qed.
Print Assumptions C18_pin_shapes.

(* pin: the backbone torsions tabulated by the table-level reader are the IUPAC ones (atom, residue offset), and the
   glycosidic torsion of the residue-level reader uses O4'-C1'-N9-C4 / O4'-C1'-N1-C2 *)
Lemma C18_pin_torsion_tables :
  v2_torsion_table =
    [("alpha",   [("O3'", -1); ("P", 0);   ("O5'", 0); ("C5'", 0)]);
     ("beta",    [("P", 0);    ("O5'", 0); ("C5'", 0); ("C4'", 0)]);
     ("gamma",   [("O5'", 0);  ("C5'", 0); ("C4'", 0); ("C3'", 0)]);
     ("delta",   [("C5'", 0);  ("C4'", 0); ("C3'", 0); ("O3'", 0)]);
     ("epsilon", [("C4'", 0);  ("C3'", 0); ("O3'", 0); ("P", 1)]);
     ("zeta",    [("C3'", 0);  ("O3'", 0); ("P", 1);   ("O5'", 1)])]%string%Z%list /\
  chi_purine_atoms = ["O4'"; "C1'"; "N9"; "C4"]%string%list /\ chi_pyrimidine_atoms = ["O4'"; "C1'"; "N1"; "C2"]%string%list.
Proof. repeat split; reflexivity. Qed.
Print Assumptions C18_pin_torsion_tables.

(* For points built with bond lengths l1 l2 l3, bond angles (sines s1 s3) and dihedral phi (sf = sin phi,
   cf = cos phi), tertiary.py hands atan2 the pair (|v2| * y, x) = (K sin phi, K cos phi) with
   K = l1 l2^2 l3 s1 s3 > 0: the returned value is phi. *)
Theorem C18_v1_args : forall l1 l2 l3 s1 c1 s3 c3 sf cf : R,
    t1yR (q1 l1 s1 c1) q2 (q3 l2) (q4 l2 l3 s3 c3 sf cf) = l1 * l2 * l3 * s1 * s3 * sf /\
    t1xR (q1 l1 s1 c1) q2 (q3 l2) (q4 l2 l3 s3 c3 sf cf) = l1 * (l2 * l2) * l3 * s1 * s3 * cf /\
    v2l2R (q1 l1 s1 c1) q2 (q3 l2) (q4 l2 l3 s3 c3 sf cf) = l2 * l2.
Proof. exact v1_constructed. Qed.
Print Assumptions C18_v1_args.

Theorem C18_K_positive : forall l1 l2 l3 s1 s3 : R,
    0 < l1 -> 0 < l2 -> 0 < l3 -> 0 < s1 -> 0 < s3 -> 0 < l1 * (l2 * l2) * l3 * s1 * s3.
Proof. exact K_positive. Qed.
Print Assumptions C18_K_positive.

(* tertiary_v2.py hands atan2 the opposite sine component: it returns -phi.  This REFUTES "both return phi /
   they agree with each other" for the current code (known finding v2-sign, pinned by tests/test_v2.py). *)
Theorem C18_v2_is_minus_v1 : forall p1 p2 p3 p4 : vec R,
    t2yR p1 p2 p3 p4 = - (v2l2R p1 p2 p3 p4) * t1yR p1 p2 p3 p4.
Proof. exact v2_is_minus_v1. Qed.
Print Assumptions C18_v2_is_minus_v1.

Theorem C18_v2_args : forall l1 l2 l3 s1 c1 s3 c3 sf cf : R,
    t2yR (q1 l1 s1 c1) q2 (q3 l2) (q4 l2 l3 s3 c3 sf cf) = - (l2 * l2) * (l1 * l2 * l3 * s1 * s3 * sf).
Proof. exact v2_constructed. Qed.
Print Assumptions C18_v2_args.

(* rigid motion (d = 1) keeps both arguments; a mirror image (d = -1) negates the sine component only *)
Theorem C18_rigid_and_mirror :
  forall r11 r12 r13 r21 r22 r23 r31 r32 r33 t1 t2 t3 : R,
    r11 * r11 + r21 * r21 + r31 * r31 = 1 -> r12 * r12 + r22 * r22 + r32 * r32 = 1 -> r13 * r13 + r23 * r23 + r33 * r33 = 1 ->
    r11 * r12 + r21 * r22 + r31 * r32 = 0 -> r11 * r13 + r21 * r23 + r31 * r33 = 0 -> r12 * r13 + r22 * r23 + r32 * r33 = 0 ->
    forall d, r11 * (r22 * r33 - r23 * r32) - r12 * (r21 * r33 - r23 * r31) + r13 * (r21 * r32 - r22 * r31) = d ->
    forall p1 p2 p3 p4,
      let m := move r11 r12 r13 r21 r22 r23 r31 r32 r33 t1 t2 t3 in
      t1xR (m p1) (m p2) (m p3) (m p4) = t1xR p1 p2 p3 p4 /\
      t1yR (m p1) (m p2) (m p3) (m p4) = d * t1yR p1 p2 p3 p4 /\
      v2l2R (m p1) (m p2) (m p3) (m p4) = v2l2R p1 p2 p3 p4.
Proof.
  intros. repeat split.
  - eapply t1x_moved; eassumption.
  - eapply t1y_moved; eassumption.
  - eapply v2len_moved; eassumption.
Qed.
Print Assumptions C18_rigid_and_mirror.

Theorem C18_reverse : forall p1 p2 p3 p4 : vec R,
    t1yR p4 p3 p2 p1 = t1yR p1 p2 p3 p4 /\ t1xR p4 p3 p2 p1 = t1xR p1 p2 p3 p4 /\ v2l2R p4 p3 p2 p1 = v2l2R p1 p2 p3 p4.
Proof. exact reverse_keeps. Qed.
Print Assumptions C18_reverse.

(* the clip to [-1, 1] in tertiary.py is the identity: x^2 <= |n1|^2 |n2|^2 *)
Theorem C18_clip_identity : forall p1 p2 p3 p4 : vec R,
    t1xR p1 p2 p3 p4 * t1xR p1 p2 p3 p4 <=
    normal1_len2 R Rplus Rmult Rminus p1 p2 p3 p4 * normal2_len2 R Rplus Rmult Rminus p1 p2 p3 p4.
Proof. exact x_within_normals. Qed.
Print Assumptions C18_clip_identity.
