(* C11 — the Saenger table is consistent between a pair and its reverse; LW reverse is an involution on the classes. *)
From Coq Require Import String Ascii ZArith List Bool.
From RV Require Import Base.Val Base.PyStr Gen.Common Gen.Annot.
Import ListNotations.
Local Open Scope string_scope.

(* pin: the class ladder and the merge rules are the modelled ones *)
Lemma C11_pin_annotator : annotator_as_modelled = true.
Proof. reflexivity. Qed.
Print Assumptions C11_pin_annotator.

(* pin: the base-phosphate / base-ribose class ladder (Zirbel et al.): per (base, donor atom) a class, or two ring atoms with
   the classes for a cis / trans acceptor *)
Lemma C11_pin_bph_ladder : bph_ladder =
  [(("A", "C2"), inl 2); (("A", "N6"), inr (("N1", "C6"), (6, 7))); (("A", "C8"), inl 0); (("G", "N1"), inl 5);
   (("G", "N2"), inr (("N3", "C2"), (1, 3))); (("G", "C8"), inl 0); (("C", "N4"), inr (("N3", "C4"), (6, 7))); (("C", "C5"), inl 9);
   (("C", "C6"), inl 0); (("U", "N3"), inl 5); (("U", "C5"), inl 9); (("U", "C6"), inl 0); (("T", "N3"), inl 5); (("T", "C6"), inl 0);
   (("T", "C7"), inl 9)]%string.
Proof. reflexivity. Qed.
Print Assumptions C11_pin_bph_ladder.

(* pin: the Saenger classification table itself (bases in pair order, Leontis-Westhof class -> Saenger class) *)
Lemma C11_pin_saenger_table : saenger_table =
  [(("AA", "tWW"), "I"); (("AA", "tHH"), "II"); (("GG", "tWW"), "III"); (("GG", "tSS"), "IV"); (("AA", "tWH"), "V"); (("AA", "tHW"), "V"); (("GG", "cWH"), "VI"); (("GG", "cHW"), "VI"); (("GG", "tWH"), "VII"); (("GG", "tHW"), "VII"); (("AG", "cWW"), "VIII"); (("GA", "cWW"), "VIII"); (("AG", "cHW"), "IX"); (("GA", "cWH"), "IX"); (("AG", "tWS"), "X"); (("GA", "tSW"), "X"); (("AG", "tHS"), "XI"); (("GA", "tSH"), "XI"); (("UU", "tWW"), "XII"); (("TT", "tWW"), "XII"); (("UU", "cWW"), "XVI"); (("TT", "cWW"), "XVI"); (("CU", "tWW"), "XVII"); (("UC", "tWW"), "XVII"); (("CU", "cWW"), "XVIII"); (("UC", "cWW"), "XVIII"); (("CG", "cWW"), "XIX"); (("GC", "cWW"), "XIX"); (("AU", "cWW"), "XX"); (("UA", "cWW"), "XX"); (("AT", "cWW"), "XX"); (("TA", "cWW"), "XX"); (("AU", "tWW"), "XXI"); (("UA", "tWW"), "XXI"); (("AT", "tWW"), "XXI"); (("TA", "tWW"), "XXI"); (("CG", "tWW"), "XXII"); (("GC", "tWW"), "XXII"); (("AU", "cHW"), "XXIII"); (("UA", "cWH"), "XXIII"); (("AT", "cHW"), "XXIII"); (("TA", "cWH"), "XXIII"); (("AU", "tHW"), "XXIV"); (("UA", "tWH"), "XXIV"); (("AT", "tHW"), "XXIV"); (("TA", "tWH"), "XXIV"); (("AC", "tHW"), "XXV"); (("CA", "tWH"), "XXV"); (("AC", "tWW"), "XXVI"); (("CA", "tWW"), "XXVI"); (("GU", "tWW"), "XXVII"); (("UG", "tWW"), "XXVII"); (("GT", "tWW"), "XXVII"); (("TG", "tWW"), "XXVII"); (("GU", "cWW"), "XXVIII"); (("UG", "cWW"), "XXVIII"); (("GT", "cWW"), "XXVIII"); (("TG", "cWW"), "XXVIII")]%string.
Proof. reflexivity. Qed.
Print Assumptions C11_pin_saenger_table.

Definition swap2 (s : string) : string :=
  match list_ascii_of_string s with [a; b] => string_of_list_ascii [b; a] | _ => s end.
(* LeontisWesthof.reverse: name[perm0] name[perm1] name[perm2] *)
Definition lw_rev (s : string) : string :=
  let l := list_ascii_of_string s in
  string_of_list_ascii (map (fun k => nth k l " "%char) lw_reverse_perm).
Definition table_lookup (k : string * string) : option string :=
  match find (fun kv => String.eqb (fst (fst kv)) (fst k) && String.eqb (snd (fst kv)) (snd k)) saenger_table with
  | Some kv => Some (snd kv) | None => None end.
Definition ostring_eqb (a b : option string) : bool :=
  match a, b with Some x, Some y => String.eqb x y | None, None => true | _, _ => false end.

Definition bases : list string := ["A"; "C"; "G"; "U"; "T"].
Definition all_keys : list (string * string) :=
  flat_map (fun a => flat_map (fun b => map (fun lw => (a ++ b, fst lw)) lw_members) bases) bases.

(* for every pair of bases and every LW class: the class of (b1 b2, lw) equals that of (b2 b1, reverse lw) *)
Theorem C11_saenger_symmetric :
  forallb (fun k => ostring_eqb (table_lookup k) (table_lookup (swap2 (fst k), lw_rev (snd k)))) all_keys = true.
Proof. vm_compute. reflexivity. Qed.
Print Assumptions C11_saenger_symmetric.

(* every key of the table is a (two bases, LW class) key and every value a Saenger member *)
Theorem C11_table_wellformed :
  forallb (fun kv => existsb (fun m => String.eqb (fst m) (snd kv)) saenger_members &&
                     existsb (fun m => String.eqb (fst m) (snd (fst kv))) lw_members) saenger_table = true.
Proof. vm_compute. reflexivity. Qed.
Print Assumptions C11_table_wellformed.

Theorem C11_lw_reverse_involutive :
  forallb (fun m => String.eqb (lw_rev (lw_rev (fst m))) (fst m) && existsb (fun m' => String.eqb (fst m') (lw_rev (fst m))) lw_members) lw_members = true.
Proof. vm_compute. reflexivity. Qed.
Print Assumptions C11_lw_reverse_involutive.

(* the canonical classes exist in the enum *)
Theorem C11_canonical_are_members :
  forallb (fun c => existsb (fun m => String.eqb (fst m) c) saenger_members) saenger_canonical = true.
Proof. vm_compute. reflexivity. Qed.
Print Assumptions C11_canonical_are_members.

(* ------------------------------------------------------------------ the lists find_pairs returns *)
From Coq Require Import Arith Sorted.
From RV Require Import Model.Geom Model.Annot Proofs.C03Main Proofs.C11Main.
Close Scope string_scope.

Theorem C11_pairs_no_repeat : forall rs order, NoDup (po_pairs (find_pairs rs order)).
Proof. exact pairs_no_repeat. Qed.
Print Assumptions C11_pairs_no_repeat.

Theorem C11_pairs_two_residues : forall rs order i j lw sa, In (i, j, lw, sa) (po_pairs (find_pairs rs order)) -> i <> j.
Proof. exact pairs_two_residues. Qed.
Print Assumptions C11_pairs_two_residues.

(* lower residue (model, chain, number, insertion code) first *)
Theorem C11_pairs_lower_first : forall rs order i j lw sa, In (i, j, lw, sa) (po_pairs (find_pairs rs order)) ->
    exists ri rj, nth_error rs i = Some ri /\ nth_error rs j = Some rj /\ res_ltb rj ri = false.
Proof. exact pairs_lower_first. Qed.
Print Assumptions C11_pairs_lower_first.

Theorem C11_pairs_sorted : forall rs order, 2 <= length (candidates rs) ->
    exists ls, po_pairs (find_pairs rs order) = map (pair_of rs) ls /\ LocallySorted (fun x y => pair_ltb rs y x = false) ls.
Proof. exact pairs_sorted. Qed.
Print Assumptions C11_pairs_sorted.

(* base-phosphate / base-ribose contacts: two residues, at most one class per residue pair *)
Theorem C11_contacts_two_residues : forall rs order d a k,
    In (d, a, k) (po_bph (find_pairs rs order)) \/ In (d, a, k) (po_br (find_pairs rs order)) -> d <> a.
Proof. exact contacts_two_residues. Qed.
Print Assumptions C11_contacts_two_residues.

Theorem C11_contacts_one_class : forall rs l, NoDup (map (fun t => (fst (fst t), snd (fst t))) (merge_and_clean rs l)).
Proof. exact contacts_one_class. Qed.
Print Assumptions C11_contacts_one_class.

(* every reported base-phosphate / base-ribose contact is backed by scanned atom contacts of that residue pair: a donor
   candidate and an acceptor candidate on two different residues, from the neighbour pairs handed to the scan, one of the two
   atoms named like a phosphate (resp. ribose) oxygen, with the class the ladder gives for the donor atom - or it is class 4
   backed by contacts of classes 3 and 5, or class 8 backed by 7 and 9 *)
From RV Require Import Proofs.C11Contacts.
Theorem C11_contacts_backed : forall rs order d a k,
    (In (d, a, k) (po_bph (find_pairs rs order)) ->
       let B x := backed rs (candidates rs) order phosphate_acceptors (d, a, x) in B k \/ (k = 4 /\ B 3 /\ B 5) \/ (k = 8 /\ B 7 /\ B 9)) /\
    (In (d, a, k) (po_br (find_pairs rs order)) ->
       let B x := backed rs (candidates rs) order ribose_acceptors (d, a, x) in B k \/ (k = 4 /\ B 3 /\ B 5) \/ (k = 8 /\ B 7 /\ B 9)).
Proof. exact reported_contacts_backed. Qed.
Print Assumptions C11_contacts_backed.

(* and when the scan is fed the validated neighbour set, the donor and the acceptor atom are within the 4.0 A threshold *)
Theorem C11_contacts_within : forall rs order names t, (forall ij, In ij order -> In ij (hbond_neighbours rs)) ->
    backed rs (candidates rs) order names t ->
    exists donor acceptor, In donor (candidates rs) /\ In acceptor (candidates rs) /\
      c_acceptor donor = false /\ c_acceptor acceptor = true /\ fst t = (c_res donor, c_res acceptor) /\
      within2 hbond_max_distance (c_pos donor) (c_pos acceptor) = true.
Proof. exact backed_within. Qed.
Print Assumptions C11_contacts_within.

(* base pairs are sorted in the strong sense when no two residues share an identity (see C04_residue_order) *)
From RV Require Import Proofs.ResOrder Proofs.SortedStrong.
Theorem C11_pairs_strongly_sorted : forall rs, NoDup (map res_key rs) -> forall order, 2 <= length (candidates rs) ->
    exists ls, po_pairs (find_pairs rs order) = map (pair_of rs) ls /\ StronglySorted (fun x y => pair_ltb rs y x = false) ls.
Proof. exact pairs_strongly_sorted. Qed.
Print Assumptions C11_pairs_strongly_sorted.

(* pin: the library orders residues by the tuple (model, chain, number, insertion code or a blank) - what res_ltb models *)
Lemma C11_pin_residue_order : res_order_as_modelled = true.
Proof. reflexivity. Qed.
Print Assumptions C11_pin_residue_order.
