(* C11 — the Saenger table is consistent between a pair and its reverse; LW reverse is an involution on the classes. *)
From Coq Require Import String Ascii ZArith List Bool.
From RV Require Import Base.Val Base.PyStr Gen.Common Gen.Annot.
Import ListNotations.
Local Open Scope string_scope.

(* pin: the class ladder and the merge rules are the modelled ones *)
Lemma C11_pin_annotator : annotator_as_modelled = true.
Proof. reflexivity. Qed.
Print Assumptions C11_pin_annotator.

Definition swap2 (s : string) : string :=
  match list_ascii_of_string s with [a; b] => string_of_list_ascii [b; a] | _ => s end.
(* LeontisWesthof.reverse: name[perm0] name[perm1] name[perm2] *)
Definition lw_rev (s : string) : string :=
  let l := list_ascii_of_string s in
  string_of_list_ascii (map (fun k => nth k l " "%char) lw_reverse_perm).
Definition table_lookup (k : string * string) : option string :=
  match find (fun kv => String.eqb (fst (fst kv)) (fst k) && String.eqb (snd (fst kv)) (snd k)) saenger_table with
  | Some kv => Some (snd kv) | None => None end.
Definition ostring_eqb (a b : option string) : bool :=
  match a, b with Some x, Some y => String.eqb x y | None, None => true | _, _ => false end.

Definition bases : list string := ["A"; "C"; "G"; "U"; "T"].
Definition all_keys : list (string * string) :=
  flat_map (fun a => flat_map (fun b => map (fun lw => (a ++ b, fst lw)) lw_members) bases) bases.

(* for every pair of bases and every LW class: the class of (b1 b2, lw) equals that of (b2 b1, reverse lw) *)
Theorem C11_saenger_symmetric :
  forallb (fun k => ostring_eqb (table_lookup k) (table_lookup (swap2 (fst k), lw_rev (snd k)))) all_keys = true.
Proof. vm_compute. reflexivity. Qed.
Print Assumptions C11_saenger_symmetric.

(* every key of the table is a (two bases, LW class) key and every value a Saenger member *)
Theorem C11_table_wellformed :
  forallb (fun kv => existsb (fun m => String.eqb (fst m) (snd kv)) saenger_members &&
                     existsb (fun m => String.eqb (fst m) (snd (fst kv))) lw_members) saenger_table = true.
Proof. vm_compute. reflexivity. Qed.
Print Assumptions C11_table_wellformed.

Theorem C11_lw_reverse_involutive :
  forallb (fun m => String.eqb (lw_rev (lw_rev (fst m))) (fst m) && existsb (fun m' => String.eqb (fst m') (lw_rev (fst m))) lw_members) lw_members = true.
Proof. vm_compute. reflexivity. Qed.
Print Assumptions C11_lw_reverse_involutive.

(* the canonical classes exist in the enum *)
Theorem C11_canonical_are_members :
  forallb (fun c => existsb (fun m => String.eqb (fst m) c) saenger_members) saenger_canonical = true.
Proof. vm_compute. reflexivity. Qed.
Print Assumptions C11_canonical_are_members.
