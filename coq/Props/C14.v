(* C14 — every place where the anchored files iterate a hash-ordered container is accounted for. *)
From Coq Require Import String Ascii List Bool.
From Coq Require Import Permutation.
From RV Require Import Gen.Common Gen.IterSites Model.AllDb Proofs.SortStr.
Import ListNotations.
Local Open Scope string_scope.

(* The sites known to be harmless, with the reason.
   unseeded = the set holds ints / tuples of ints, whose hashes do not depend on PYTHONHASHSEED;
   sorted   = the iteration result is sorted with a total key before use;
   unique   = the set has at most one member / the choice made is independent of the order (lemma named). *)
Definition known_sites : list ((string * string * string * string) * string) :=
  [(("annotator.py", "find_pairs", "for", "kdtree.query_pairs(HYDROGEN_BOND_MAX_DISTANCE)"), "unseeded: pairs of ints");
   (("annotator.py", "find_stackings", "for", "kdtree.query_pairs(STACKING_MAX_DISTANCE)"), "unseeded: pairs of ints; result sorted");
   (("clashfinder.py", "find_clashes", "for", "kdtree.query_pairs(2.0 * max_radius + molprobity_factor)"), "unseeded: pairs of ints");
   (("common.py", "BpSeq.all_dot_brackets", "for", "graph[current]"), "unseeded: ints");
   (("common.py", "BpSeq.all_dot_brackets", "itertools.product", "unique"), "unseeded frozensets of int pairs; result collected into a set and sorted");
   (("common.py", "BpSeq.all_dot_brackets", "sorted(order-insensitive)", "solutions"), "sorted by structure string (total on distinct members)");
   (("common.py", "BpSeq.convert_to_dot_bracket", "for", "graph[i]"), "unseeded: ints; only the multiset of rows matters");
   (("common.py", "BpSeq.elements", "for", "graph[i]"), "unseeded: ints; at most one successor");
   (("common.py", "BpSeq.elements", "sorted(order-insensitive)", "stopset"), "sorted ints");
   (("parser.py", "filter_clashing_atoms", "comprehension", "atoms_to_keep"), "unseeded: ints; result re-sorted by index");
   (("parser.py", "filter_clashing_atoms", "for", "pairs"), "unseeded: pairs of ints");
   (("tertiary.py", "Mapping2D3D._generated_bpseq_data", "sorted(order-insensitive)", "pairs"), "sorted by (score, nt1, nt2); ties name the same residue pair");
   (("tertiary.py", "Mapping2D3D.bpseq", "sorted(order-insensitive)", "pairs"), "sorted by (score, nt1, nt2); ties name the same residue pair")].

Definition site_eqb (a b : string * string * string * string) : bool :=
  match a, b with (a1, a2, a3, a4), (b1, b2, b3, b4) =>
    String.eqb a1 b1 && String.eqb a2 b2 && String.eqb a3 b3 && String.eqb a4 b4 end.

(* every set-iteration site the translator finds in the current source is a known one *)
Theorem C14_sites_covered :
  forallb (fun s => existsb (fun k => site_eqb s (fst k)) known_sites) iter_sites = true.
Proof. vm_compute. reflexivity. Qed.
Print Assumptions C14_sites_covered.

(* pin: the sort key of the 3D->2D conflict resolution is total up to the residue pair, so sorting a hash-ordered set of
   candidates cannot make the matching depend on the hash seed *)
Lemma C14_pin_sort_key_total : mapping_sort_key_total = true.
Proof. reflexivity. Qed.
Print Assumptions C14_pin_sort_key_total.

(* pin: the all-dot-brackets list is sorted before it is returned *)
Lemma C14_pin_alldb_sorted : alldb_sorted = true.
Proof. reflexivity. Qed.
Print Assumptions C14_pin_alldb_sorted.

(* the final step of all_dot_brackets (collect into a set, then sort): the list returned is the same for every order and
   multiplicity in which the solutions arrive — the hash-seeded iteration order of the set cannot reach the output *)
Theorem C14_alldb_order_independent : forall l l', (forall y, In y l <-> In y l') -> sort_dedup_str l = sort_dedup_str l'.
Proof. exact sort_dedup_set_invariant. Qed.
Print Assumptions C14_alldb_order_independent.

Theorem C14_alldb_permutation : forall l l', Permutation l l' -> sort_dedup_str l = sort_dedup_str l'.
Proof. exact sort_dedup_permutation. Qed.
Print Assumptions C14_alldb_permutation.

Theorem C14_alldb_no_repeats : forall l, NoDup (sort_dedup_str l).
Proof. exact sort_dedup_nodup. Qed.
Print Assumptions C14_alldb_no_repeats.
