(* C04 — stacking annotation equals its geometric definition: pins and theorems about Model.Annot.find_stackings, which
   the correspondence check ties to annotator.find_stackings.  Only `exact`. *)
From Coq Require Import String Ascii ZArith QArith Qreals Reals List Bool Permutation Sorted.
From RV Require Import Base.Val Gen.Annot Model.Geom Model.Annot Proofs.BandsR Proofs.TriSem Proofs.C04Main.
Import ListNotations.
Local Close Scope Q_scope.

Lemma C04_pin_thresholds : (stacking_max_distance == 6 /\ stacking_normals_angle == 35 /\ stacking_vector_angle == 45)%Q /\ annotator_as_modelled = true.
Proof. repeat split; reflexivity. Qed.
Print Assumptions C04_pin_thresholds.

(* pin: the heavy atoms that make up each base (the centroid is their mean) *)
Lemma C04_pin_base_atoms :
  base_atoms = [("A", ["N1"; "C2"; "N3"; "C4"; "C5"; "C6"; "N6"; "N7"; "C8"; "N9"]); ("G", ["N1"; "C2"; "N2"; "N3"; "C4"; "C5"; "C6"; "O6"; "N7"; "C8"; "N9"]);
                ("C", ["N1"; "C2"; "O2"; "N3"; "C4"; "N4"; "C5"; "C6"]); ("U", ["N1"; "C2"; "O2"; "N3"; "C4"; "O4"; "C5"; "C6"]);
                ("T", ["N1"; "C2"; "O2"; "N3"; "C4"; "O4"; "C5"; "C6"; "C7"])]%string.
Proof. reflexivity. Qed.
Print Assumptions C04_pin_base_atoms.

(* reported = the neighbour pairs (centroids within 6 A) whose decisions do not say No *)
Theorem C04_reported_iff : forall rs order e, Permutation order (stacking_neighbours rs) ->
    (In e (so_stackings (find_stackings rs order)) <->
     exists ab, In ab (stacking_neighbours rs) /\ fst (stack_pair rs (centres rs) ab) = Some e).
Proof. exact reported_iff_neighbours. Qed.
Print Assumptions C04_reported_iff.

(* one neighbour pair: the entry and the undecided flag as a function of the two decisions *)
Theorem C04_pair_decisions : forall rs cs a b i si ki j sj kj ri rj ni nj,
    nth_error cs a = Some (i, (si, ki)) -> nth_error cs b = Some (j, (sj, kj)) ->
    nth_error rs i = Some ri -> nth_error rs j = Some rj -> base_normal ri = Some ni -> base_normal rj = Some nj ->
    stack_pair rs cs (a, b) =
      match parallel ni nj, along (vsubZ (scale kj si) (scale ki sj)) ni nj with
      | No, _ => (None, false)
      | Near, No => (None, true)
      | Yes, No => (None, false)
      | Yes, Yes => (Some (entry_of i j ri rj ni nj), false)
      | _, _ => (Some (entry_of i j ri rj ni nj), true)
      end.
Proof. exact stack_pair_decisions. Qed.
Print Assumptions C04_pair_decisions.

(* the decisions mean what the property says, in degrees (real numbers): normals within 35 degrees of (anti)parallel *)
Theorem C04_normals_decision : forall a b,
    match cos2_atleast cos2_normals_lo cos2_normals_hi a b with
    | Yes => ~ degenerate a b /\ (c2 (Q2R stacking_normals_angle) < cosang2 a b)%R
    | Near => ~ degenerate a b /\ (c2 (Q2R stacking_normals_angle + eps) < cosang2 a b < c2 (Q2R stacking_normals_angle - eps))%R
    | No => degenerate a b \/ (cosang2 a b < c2 (Q2R stacking_normals_angle))%R
    end.
Proof. exact normals_meaning. Qed.
Print Assumptions C04_normals_decision.

(* the centroid vector within 45 degrees of a normal *)
Theorem C04_vector_decision : forall v n,
    match angle_atmost cos2_vector_lo cos2_vector_hi v n with
    | Yes => (0 < dotZ v n)%Z /\ ~ degenerate v n /\ (c2 (Q2R stacking_vector_angle) < cosang2 v n)%R
    | Near => (0 < dotZ v n)%Z /\ ~ degenerate v n /\ (c2 (Q2R stacking_vector_angle + eps) < cosang2 v n < c2 (Q2R stacking_vector_angle - eps))%R
    | No => (dotZ v n <= 0)%Z \/ degenerate v n \/ (cosang2 v n < c2 (Q2R stacking_vector_angle))%R
    end.
Proof. exact vector_meaning. Qed.
Print Assumptions C04_vector_decision.

(* each pair once *)
Theorem C04_reported_once : forall rs order, Permutation order (stacking_neighbours rs) ->
    NoDup (map fst (so_stackings (find_stackings rs order))).
Proof. exact reported_once_neighbours. Qed.
Print Assumptions C04_reported_once.

(* the validated neighbour set itself has each pair once, lower centre first *)
Theorem C04_neighbours_ok : forall rs, NoDup (stacking_neighbours rs) /\ forall ab, In ab (stacking_neighbours rs) -> fst ab < snd ab.
Proof. exact neighbours_ok. Qed.
Print Assumptions C04_neighbours_ok.

(* ordered: never descending by (first residue, second residue, topology) *)
Theorem C04_reported_sorted : forall rs order,
    LocallySorted (fun x y => stack_ltb rs y x = false) (so_stackings (find_stackings rs order)).
Proof. exact reported_sorted. Qed.
Print Assumptions C04_reported_sorted.

(* the arrival order of the KD-tree pairs only permutes the result *)
Theorem C04_order_independent : forall rs o1 o2, Permutation o1 o2 ->
    Permutation (so_stackings (find_stackings rs o1)) (so_stackings (find_stackings rs o2)).
Proof. exact reported_order_independent. Qed.
Print Assumptions C04_order_independent.

(* sorted in the strong sense: the residue order (model, chain, number, insertion code) is a strict total order on residue
   identities, so when no two residues of the structure share an identity the reported list is strongly sorted by
   (first residue, second residue, label): no entry is followed anywhere later by one that sorts strictly before it *)
From RV Require Import Proofs.ResOrder Proofs.SortedStrong.
Theorem C04_residue_order :
  (forall a, res_ltb a a = false) /\
  (forall a b c, res_ltb a b = true -> res_ltb b c = true -> res_ltb a c = true) /\
  (forall a b, res_ltb a b = false -> res_ltb b a = false -> res_key a = res_key b) /\
  (forall a b c, res_ltb a b = false -> res_ltb b c = false -> res_ltb a c = false).
Proof. exact res_ltb_order. Qed.
Print Assumptions C04_residue_order.

Theorem C04_strongly_sorted : forall rs, NoDup (map res_key rs) -> forall order,
    StronglySorted (fun x y => stack_ltb rs y x = false) (so_stackings (find_stackings rs order)).
Proof. exact stackings_strongly_sorted. Qed.
Print Assumptions C04_strongly_sorted.

(* hence the arrival order of the neighbour pairs (the KD-tree's enumeration order) cannot reach the output at all: for any two
   orders of the same pairs the reported lists are EQUAL, not only permutations of each other *)
From RV Require Import Proofs.SortedUnique.
Theorem C04_order_free : forall rs, NoDup (map res_key rs) -> forall o1 o2, Permutation o1 o2 ->
    so_stackings (find_stackings rs o1) = so_stackings (find_stackings rs o2).
Proof. exact stackings_order_free. Qed.
Print Assumptions C04_order_free.

(* pin: the library orders residues by the tuple (model, chain, number, insertion code or a blank) - what res_ltb models *)
Lemma C04_pin_residue_order : res_order_as_modelled = true.
Proof. reflexivity. Qed.
Print Assumptions C04_pin_residue_order.
