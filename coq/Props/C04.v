(* C04 — pins (theorems in Proofs/C04Main.v to follow). *)
From Coq Require Import String Ascii ZArith QArith List Bool.
From RV Require Import Base.Val Gen.Annot Model.Annot.
Import ListNotations.

Lemma C04_pin_thresholds : stacking_max_distance == 6 /\ stacking_normals_angle == 35 /\ stacking_vector_angle == 45 /\ annotator_as_modelled = true.
Proof. repeat split; reflexivity. Qed.
Print Assumptions C04_pin_thresholds.
