(* C05 — invariance of the decision quantities under rigid motion (from the C18 development). *)
From Coq Require Import Reals.
From RV Require Import Model.Geom Proofs.TorsionR.
Open Scope R_scope.

(* every dot product of difference vectors — hence every squared distance, every cosine numerator and denominator,
   centroid offsets (affine combinations) — is unchanged by an orthogonal map followed by a translation *)
Theorem C05_dot_invariant :
  forall r11 r12 r13 r21 r22 r23 r31 r32 r33 t1 t2 t3 : R,
    r11 * r11 + r21 * r21 + r31 * r31 = 1 -> r12 * r12 + r22 * r22 + r32 * r32 = 1 -> r13 * r13 + r23 * r23 + r33 * r33 = 1 ->
    r11 * r12 + r21 * r22 + r31 * r32 = 0 -> r11 * r13 + r21 * r23 + r31 * r33 = 0 -> r12 * r13 + r22 * r23 + r32 * r33 = 0 ->
    forall d, r11 * (r22 * r33 - r23 * r32) - r12 * (r21 * r33 - r23 * r31) + r13 * (r21 * r32 - r22 * r31) = d ->
    forall a b c e,
      let m := move r11 r12 r13 r21 r22 r23 r31 r32 r33 t1 t2 t3 in
      dotR (vsubR (m a) (m b)) (vsubR (m c) (m e)) = dotR (vsubR a b) (vsubR c e).
Proof. intros. eapply dot_moved; eassumption. Qed.
Print Assumptions C05_dot_invariant.

(* triple products (base normal . contact vector, torsion sine components) are multiplied by the determinant: unchanged
   by proper rotations *)
Theorem C05_triple_invariant :
  forall r11 r12 r13 r21 r22 r23 r31 r32 r33 t1 t2 t3 : R,
    r11 * r11 + r21 * r21 + r31 * r31 = 1 -> r12 * r12 + r22 * r22 + r32 * r32 = 1 -> r13 * r13 + r23 * r23 + r33 * r33 = 1 ->
    r11 * r12 + r21 * r22 + r31 * r32 = 0 -> r11 * r13 + r21 * r23 + r31 * r33 = 0 -> r12 * r13 + r22 * r23 + r32 * r33 = 0 ->
    r11 * (r22 * r33 - r23 * r32) - r12 * (r21 * r33 - r23 * r31) + r13 * (r21 * r32 - r22 * r31) = 1 ->
    forall a b c e f g,
      let m := move r11 r12 r13 r21 r22 r23 r31 r32 r33 t1 t2 t3 in
      dotR (vsubR (m a) (m b)) (crossR (vsubR (m c) (m e)) (vsubR (m f) (m g))) = dotR (vsubR a b) (crossR (vsubR c e) (vsubR f g)).
Proof. intros. subst m. erewrite triple_moved by eassumption. ring. Qed.
Print Assumptions C05_triple_invariant.

(* ------------------------------------------------------------------ the whole annotation, on the model (integer grid) *)
From Coq Require Import ZArith List.
From RV Require Import Model.Annot Proofs.C05Main.
Close Scope R_scope.

(* base pairs (with classes), base-phosphate and base-ribose contacts are unchanged by p |-> M p + t for every linear M
   that preserves dot and cross products (every rotation of the grid) and every translation t *)
Theorem C05_pairs_invariant : forall (M : vecZ -> vecZ) (t : vecZ),
    (forall a b, M (vsubZ a b) = vsubZ (M a) (M b)) -> (forall a b, dotZ (M a) (M b) = dotZ a b) ->
    (forall a b, crossZ (M a) (M b) = M (crossZ a b)) ->
    forall rs order, find_pairs (map (move_res M t) rs) order = find_pairs rs order.
Proof. exact find_pairs_invariant. Qed.
Print Assumptions C05_pairs_invariant.

Theorem C05_stackings_invariant : forall (M : vecZ -> vecZ) (t : vecZ),
    (forall a b, M (vaddZ a b) = vaddZ (M a) (M b)) -> (forall a b, M (vsubZ a b) = vsubZ (M a) (M b)) ->
    (forall k a, M (scale k a) = scale k (M a)) -> (forall a b, dotZ (M a) (M b) = dotZ a b) ->
    (forall a b, crossZ (M a) (M b) = M (crossZ a b)) ->
    forall rs order, find_stackings (map (move_res M t) rs) order = find_stackings rs order.
Proof. exact find_stackings_invariant. Qed.
Print Assumptions C05_stackings_invariant.

(* the neighbour set the KD-tree answer is validated against does not move either *)
Theorem C05_neighbours_invariant : forall (M : vecZ -> vecZ) (t : vecZ),
    (forall a b, M (vsubZ a b) = vsubZ (M a) (M b)) -> (forall a b, dotZ (M a) (M b) = dotZ a b) ->
    forall rs, hbond_neighbours (map (move_res M t) rs) = hbond_neighbours rs.
Proof. exact hbond_neighbours_invariant. Qed.
Print Assumptions C05_neighbours_invariant.

(* instances: all translations; the 120-degree rotation about (1,1,1) and the 90-degree rotation about z, each with any translation *)
Theorem C05_translation : forall t rs o1 o2,
    find_pairs (map (move_res (fun v => v) t) rs) o1 = find_pairs rs o1 /\ find_stackings (map (move_res (fun v => v) t) rs) o2 = find_stackings rs o2.
Proof. exact translation_invariant. Qed.
Print Assumptions C05_translation.
Theorem C05_rotation_cyc : forall t rs o1 o2,
    find_pairs (map (move_res rot_cyc t) rs) o1 = find_pairs rs o1 /\ find_stackings (map (move_res rot_cyc t) rs) o2 = find_stackings rs o2.
Proof. exact rotation_cyc_invariant. Qed.
Print Assumptions C05_rotation_cyc.
Theorem C05_rotation_z90 : forall t rs o1 o2,
    find_pairs (map (move_res rot_z90 t) rs) o1 = find_pairs rs o1 /\ find_stackings (map (move_res rot_z90 t) rs) o2 = find_stackings rs o2.
Proof. exact rotation_z90_invariant. Qed.
Print Assumptions C05_rotation_z90.

(* atoms listed in a different order inside residues (names unique inside a residue): the same annotation *)
From Coq Require Import Permutation.
From RV Require Import Base.PyStr Proofs.C05Order.

Theorem C05_reordered_residue : forall r atoms', NoDup (map fst (r_atoms r)) -> Permutation (r_atoms r) atoms' ->
    same_res r {| r_model := r_model r; r_chain := r_chain r; r_number := r_number r; r_icode := r_icode r; r_letter := r_letter r; r_atoms := atoms' |}.
Proof. exact reordered_same. Qed.
Print Assumptions C05_reordered_residue.

Theorem C05_atom_order : forall rs rs', Forall2 same_res rs rs' ->
    (forall order, find_pairs rs' order = find_pairs rs order) /\ (forall order, find_stackings rs' order = find_stackings rs order).
Proof. intros rs rs' H. split; [exact (find_pairs_same rs rs' H)|exact (find_stackings_same rs rs' H)]. Qed.
Print Assumptions C05_atom_order.

(* relabelling: the model reads chain / number / insertion code only through the residue order, so any relabelling that
   keeps the order of the residues (and their model number, letters and atoms) gives the same interaction lists *)
From RV Require Import Proofs.C05Relabel.
Theorem C05_relabelling : forall rs rs', Forall2 sim_res rs rs' ->
    (forall i j a b a' b', nth_error rs i = Some a -> nth_error rs j = Some b -> nth_error rs' i = Some a' -> nth_error rs' j = Some b' ->
                           res_ltb a' b' = res_ltb a b) ->
    (forall order, find_pairs rs' order = find_pairs rs order) /\ (forall order, find_stackings rs' order = find_stackings rs order).
Proof. intros rs rs' H O. split; [exact (find_pairs_sim rs rs' H O)|exact (find_stackings_sim rs rs' H O)]. Qed.
Print Assumptions C05_relabelling.

Theorem C05_renumbering : forall d rs,
    (forall order, find_pairs (map (shift d) rs) order = find_pairs rs order) /\
    (forall order, find_stackings (map (shift d) rs) order = find_stackings rs order).
Proof. exact renumbered_same. Qed.
Print Assumptions C05_renumbering.
