(* C05 — invariance of the decision quantities under rigid motion (from the C18 development). *)
From Coq Require Import Reals.
From RV Require Import Model.Geom Proofs.TorsionR.
Open Scope R_scope.

(* every dot product of difference vectors — hence every squared distance, every cosine numerator and denominator,
   centroid offsets (affine combinations) — is unchanged by an orthogonal map followed by a translation *)
Theorem C05_dot_invariant :
  forall r11 r12 r13 r21 r22 r23 r31 r32 r33 t1 t2 t3 : R,
    r11 * r11 + r21 * r21 + r31 * r31 = 1 -> r12 * r12 + r22 * r22 + r32 * r32 = 1 -> r13 * r13 + r23 * r23 + r33 * r33 = 1 ->
    r11 * r12 + r21 * r22 + r31 * r32 = 0 -> r11 * r13 + r21 * r23 + r31 * r33 = 0 -> r12 * r13 + r22 * r23 + r32 * r33 = 0 ->
    forall d, r11 * (r22 * r33 - r23 * r32) - r12 * (r21 * r33 - r23 * r31) + r13 * (r21 * r32 - r22 * r31) = d ->
    forall a b c e,
      let m := move r11 r12 r13 r21 r22 r23 r31 r32 r33 t1 t2 t3 in
      dotR (vsubR (m a) (m b)) (vsubR (m c) (m e)) = dotR (vsubR a b) (vsubR c e).
Proof. intros. eapply dot_moved; eassumption. Qed.
Print Assumptions C05_dot_invariant.

(* triple products (base normal . contact vector, torsion sine components) are multiplied by the determinant: unchanged
   by proper rotations *)
Theorem C05_triple_invariant :
  forall r11 r12 r13 r21 r22 r23 r31 r32 r33 t1 t2 t3 : R,
    r11 * r11 + r21 * r21 + r31 * r31 = 1 -> r12 * r12 + r22 * r22 + r32 * r32 = 1 -> r13 * r13 + r23 * r23 + r33 * r33 = 1 ->
    r11 * r12 + r21 * r22 + r31 * r32 = 0 -> r11 * r13 + r21 * r23 + r31 * r33 = 0 -> r12 * r13 + r22 * r23 + r32 * r33 = 0 ->
    r11 * (r22 * r33 - r23 * r32) - r12 * (r21 * r33 - r23 * r31) + r13 * (r21 * r32 - r22 * r31) = 1 ->
    forall a b c e f g,
      let m := move r11 r12 r13 r21 r22 r23 r31 r32 r33 t1 t2 t3 in
      dotR (vsubR (m a) (m b)) (crossR (vsubR (m c) (m e)) (vsubR (m f) (m g))) = dotR (vsubR a b) (crossR (vsubR c e) (vsubR f g)).
Proof. intros. subst m. erewrite triple_moved by eassumption. ring. Qed.
Print Assumptions C05_triple_invariant.
