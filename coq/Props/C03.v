(* C03 — pins (theorems in Proofs/C03Main.v to follow). *)
From Coq Require Import String Ascii ZArith QArith List Bool.
From RV Require Import Base.Val Gen.Annot Model.Annot.
Import ListNotations.

Lemma C03_pin_thresholds : hbond_max_distance == 4 /\ hbond_angle_lo == 50 /\ hbond_angle_hi == 130 /\ min_hbonds = 2%nat /\ annotator_as_modelled = true /\ hbond_dedup = true.
Proof. repeat split; reflexivity. Qed.
Print Assumptions C03_pin_thresholds.
