(* C03 — reported base pairs are geometrically justified, edge-exclusive and maximal: pins and theorems about
   Model.Annot.find_pairs, which the correspondence check ties to annotator.find_pairs.  Only `exact`. *)
From Coq Require Import String Ascii ZArith QArith Qreals Reals List Bool Permutation.
From RV Require Import Base.Val Gen.Annot Model.Geom Model.Annot Proofs.BandsR Proofs.TriSem Proofs.C03Occupy Proofs.C03Hbonds Proofs.C03Main.
Import ListNotations.
Local Close Scope Q_scope.

Lemma C03_pin_thresholds : (hbond_max_distance == 4 /\ hbond_angle_lo == 50 /\ hbond_angle_hi == 130)%Q /\ min_hbonds = 2%nat /\ annotator_as_modelled = true /\ hbond_dedup = true.
Proof. repeat split; reflexivity. Qed.
Print Assumptions C03_pin_thresholds.

(* pin: the chemistry tables of the source are the ones the property is read against (donors, acceptors, edges per base) *)
Lemma C03_pin_tables :
  base_donors = [("A", ["C2"; "N6"; "C8"; "O2'"]); ("G", ["N1"; "N2"; "C8"; "O2'"]); ("C", ["N4"; "C5"; "C6"; "O2'"]); ("U", ["N3"; "C5"; "C6"; "O2'"]); ("T", ["N3"; "C6"; "C7"])]%string /\
  base_acceptors = [("A", ["N1"; "N3"; "N7"]); ("G", ["N3"; "O6"; "N7"]); ("C", ["O2"; "N3"]); ("U", ["O2"; "O4"]); ("T", ["O2"; "O4"])]%string /\
  phosphate_acceptors = ["OP1"; "OP2"; "O5'"; "O3'"]%string /\ ribose_acceptors = ["O4'"; "O2'"]%string /\
  base_edges = [("A", [("N1", "W"); ("C2", "WS"); ("N3", "S"); ("N6", "WH"); ("N7", "H"); ("C8", "H"); ("O2'", "S")]);
                ("G", [("N1", "W"); ("N2", "WS"); ("N3", "S"); ("O6", "WH"); ("N7", "H"); ("C8", "H"); ("O2'", "S")]);
                ("C", [("O2", "WS"); ("N3", "W"); ("N4", "WH"); ("C5", "H"); ("C6", "H"); ("O2'", "S")]);
                ("U", [("O2", "WS"); ("N3", "W"); ("O4", "WH"); ("C5", "H"); ("C6", "H"); ("O2'", "S")]);
                ("T", [("O2", "WS"); ("N3", "W"); ("O4", "WH"); ("C6", "H"); ("C7", "H")])]%string.
Proof. repeat split; reflexivity. Qed.
Print Assumptions C03_pin_tables.

(* every contact the scan records is justified (donor/acceptor, two residues, both windows Yes) and recorded once *)
Theorem C03_contacts : forall rs order,
    (forall h, In h (hbonds (scan rs order)) -> justified rs (candidates rs) order h) /\
    (hbond_dedup = true -> distinct_contacts (hbonds (scan rs order))).
Proof. exact scan_spec. Qed.
Print Assumptions C03_contacts.

(* ... and is within 4 A when the neighbour pairs come from the validated neighbour set *)
Theorem C03_contacts_within : forall rs order h, (forall ij, In ij order -> In ij (hbond_neighbours rs)) ->
    justified rs (candidates rs) order h ->
    exists ci cj, h = mk_hbond ci cj /\ In ci (candidates rs) /\ In cj (candidates rs) /\ within2 hbond_max_distance (c_pos ci) (c_pos cj) = true.
Proof. exact justified_within. Qed.
Print Assumptions C03_contacts_within.

(* the window decision in degrees (real numbers): Yes means strictly between 50 and 130 degrees off the normal *)
Theorem C03_window_decision : forall n v,
    match in_window n v with
    | Yes => ~ degenerate n v /\ (cosang2 n v < c2 (Q2R hbond_angle_lo))%R
    | Near => ~ degenerate n v /\ (c2 (Q2R hbond_angle_lo + eps) < cosang2 n v < c2 (Q2R hbond_angle_lo - eps))%R
    | No => degenerate n v \/ (c2 (Q2R hbond_angle_lo) < cosang2 n v)%R
    end.
Proof. exact window_meaning. Qed.
Print Assumptions C03_window_decision.

(* a label of a contact: its two residues, one edge of each atom, the cis/trans decision *)
Theorem C03_labels : forall rs h l, In l (hlabels rs h) ->
    exists ri rj ei ej d a b,
      nth_error rs (h_i h) = Some ri /\ nth_error rs (h_j h) = Some rj /\
      edges_of ri (h_ni h) = Some ei /\ edges_of rj (h_nj h) = Some ej /\ detect_cis_trans ri rj = Some d /\
      In a ei /\ In b ej /\
      l = (if res_ltb ri rj then (h_i h, h_j h, match d with No => false | _ => true end, a, b)
           else (h_j h, h_i h, match d with No => false | _ => true end, b, a)).
Proof. exact hlabels_meaning. Qed.
Print Assumptions C03_labels.

(* the chosen pairs: two residues, two different justified contacts on the named edges; no edge twice; maximal *)
Theorem C03_chosen : forall rs order,
    (forall l, In l (chosen rs order) ->
       ends_differ l /\
       exists h1 h2, In h1 (hbonds (scan rs order)) /\ In h2 (hbonds (scan rs order)) /\
                     (hbond_dedup = true -> same_hbond h1 h2 = false) /\
                     In l (hlabels rs h1) /\ In l (hlabels rs h2) /\
                     justified rs (candidates rs) order h1 /\ justified rs (candidates rs) order h2) /\
    NoDup (flat_map slots (chosen rs order)) /\
    (forall l, min_hbonds <= count_label l (labs rs order) ->
       In l (chosen rs order) \/ exists l' s, In l' (chosen rs order) /\ In s (slots l) /\ In s (slots l')).
Proof. exact chosen_pairs_spec. Qed.
Print Assumptions C03_chosen.

(* what find_pairs reports is exactly the chosen labels *)
Theorem C03_reported_is_chosen : forall rs order p, 2 <= length (candidates rs) ->
    (In p (po_pairs (find_pairs rs order)) <-> exists l, In l (chosen rs order) /\ p = pair_of rs l).
Proof. exact reported_is_chosen. Qed.
Print Assumptions C03_reported_is_chosen.

Theorem C03_reported_small : forall rs order, length (candidates rs) < 2 -> po_pairs (find_pairs rs order) = [].
Proof. exact find_pairs_small. Qed.
Print Assumptions C03_reported_small.
