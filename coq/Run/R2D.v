(* Entry points of M-2D for the correspondence check: typed inputs -> val. Glue, no proofs. *)
From Coq Require Import String Ascii ZArith List Bool Arith.
From RV Require Import Base.Val Gen.Common Model.Bpseq Model.Spec2D.
Import ListNotations.

Definition mkb (sq : list ascii) (ps : list nat) : bpseq :=
  map (fun x => {| idx := S (fst x); nt := fst (snd x); pair := snd (snd x) |})
      (combine (seq 0 (length sq)) (combine sq ps)).

Definition vres {A} (f : A -> val) (r : result A) : val :=
  match r with Ok a => f a | Raise e => VE (exn_name e) end.

Definition vregion (r : region) : val :=
  match r with (j, k, n) => VL [vnat j; vnat k; vnat n] end.
Definition vpairs (l : list (nat * nat)) : val := vlist (vpair vnat vnat) l.
Definition ventry (e : entry) : val := VL [vnat (idx e); vstr [nt e]; vnat (pair e)].

Definition run_valid (b : bpseq) : val := vbool (valid b).
Definition run_regions (b : bpseq) : val := vlist vregion (regions b).
Definition run_stems (b : bpseq) : val := vlist (vlist (fun e => vnat (idx e))) (stems b).
Definition run_fcfs (b : bpseq) : val := vres vstr (fcfs b).
Definition run_make_db (b : bpseq) (ord : list nat) : val := vres vstr (make_db b (regions b) ord).
Definition run_parse (s : list ascii) : val := vres vpairs (parse_db s).
Definition run_from_db (sq s : list ascii) : val :=
  vres (fun ps => vlist ventry (from_db sq ps)) (parse_db s).
Definition run_lossless (b : bpseq) (s : list ascii) : val := vbool (lossless b s).
Definition run_pairs_dict (b : bpseq) : val := vpairs (pairs_dict b).
