(* Entry points of M-2D for the correspondence check: typed inputs -> val. Glue, no proofs. *)
From Coq Require Import String Ascii ZArith List Bool Arith.
From RV Require Import Base.Val Gen.Common Model.Bpseq Model.Spec2D.
Import ListNotations.

Definition mkb (sq : list ascii) (ps : list nat) : bpseq :=
  map (fun x => {| idx := S (fst x); nt := fst (snd x); pair := snd (snd x) |})
      (combine (seq 0 (length sq)) (combine sq ps)).

Definition vres {A} (f : A -> val) (r : result A) : val :=
  match r with Ok a => f a | Raise e => VE (exn_name e) end.

Definition vregion (r : region) : val :=
  match r with (j, k, n) => VL [vnat j; vnat k; vnat n] end.
Definition vpairs (l : list (nat * nat)) : val := vlist (vpair vnat vnat) l.
Definition ventry (e : entry) : val := VL [vnat (idx e); vstr [nt e]; vnat (pair e)].

Definition run_valid (b : bpseq) : val := vbool (valid b).
Definition run_regions (b : bpseq) : val := vlist vregion (regions b).
Definition run_stems (b : bpseq) : val := vlist (vlist (fun e => vnat (idx e))) (stems b).
Definition run_fcfs (b : bpseq) : val := vres vstr (fcfs b).
Definition run_make_db (b : bpseq) (ord : list nat) : val := vres vstr (make_db b (regions b) ord).
Definition run_parse (s : list ascii) : val := vres vpairs (parse_db s).
Definition run_from_db (sq s : list ascii) : val :=
  vres (fun ps => vlist ventry (from_db sq ps)) (parse_db s).
Definition run_lossless (b : bpseq) (s : list ascii) : val := vbool (lossless b s).
Definition run_pairs_dict (b : bpseq) : val := vpairs (pairs_dict b).

(* ---- MILP, all-dot-brackets, elements *)
From RV Require Import Model.Milp Model.AllDb Model.Elements.

Definition point_of (ones : list (nat * nat)) : point :=
  fun i o => existsb (fun p => (fst p =? i) && (snd p =? o)) ones.

(* kind: 0 = no solver, 1 = raises, 2 = not optimal, 3 = optimal with the given ones *)
Definition answer_of (kind : nat) (ones : list (nat * nat)) : option solver_answer :=
  match kind with
  | 0 => None
  | 1 => Some SolverRaises
  | 2 => Some NotOptimal
  | _ => Some (Optimal (point_of ones))
  end.
Definition run_convert (b : bpseq) (kind : nat) (ones : list (nat * nat)) : val :=
  vres vstr (convert (answer_of kind ones) b).

Definition run_lp (b : bpseq) : val :=
  let rs := regions b in
  let n := length rs in
  let m := max_order rs in
  VL [vnat n; vnat m;
      VL (map (fun io => VZ (obj_coef (Z.of_nat (snd io)) (rlen (nth (fst io) rs (0, 0, 0)))))
              (list_prod (seq 0 n) (seq 0 m)));
      VL (flat_map (fun i => flat_map (fun j => map (fun o => VL [vnat i; vnat j; vnat o]) (seq 0 m))
                                      (neighbours (adj_db rs) n i)) (seq 0 n));
      vbool milp_rows_as_modelled].

Definition run_feasible (b : bpseq) (ones : list (nat * nat)) : val :=
  vbool (feasible (regions b) (point_of ones)).
Definition run_objective (b : bpseq) (ones : list (nat * nat)) : val :=
  VZ (objective (regions b) (point_of ones)).

(* spec for C02: the string is a proper assignment and its score is the optimum *)
Definition run_optimal (b : bpseq) (s : list ascii) : val :=
  let rs := regions b in
  let ord := levels_of rs s in
  VL [vbool (properb (adj_db rs) ord); VZ (score rs ord); VZ (opt_score rs)].
Definition run_score (b : bpseq) (s : list ascii) : val := VZ (score (regions b) (levels_of (regions b) s)).

Definition run_all_db (b : bpseq) : val := vres (vlist vstr) (all_db b).
Definition run_stable_db (b : bpseq) : val := vres (vlist vstr) (stable_db b).

Definition vstrand (s : strand) : val := VL [vnat (s_first s); vnat (s_last s); vstr (s_seq s); vstr (s_str s)].
Definition run_elements (b : bpseq) (db : list ascii) : val :=
  let e := elements b db in
  VL [vlist (fun p => VL [vstrand (fst p); vstrand (snd p)]) (el_stems e);
      vlist (fun p => VL [vstrand (fst (fst p)); vbool (snd (fst p)); vbool (snd p)]) (el_single e);
      vlist vstrand (el_hairpins e);
      vlist (vlist vstrand) (el_loops e)].

(* for every unpaired nucleotide, the number of reported strands that have it in their interior *)
Definition run_cover_counts (b : bpseq) (db : list ascii) : val :=
  let e := elements b db in
  vlist (fun k => VL [vnat k; vnat (times_covered e k)]) (filter (fun k => pair_at b k =? 0) (seq 1 (length b))).

Definition vbpseq (b : bpseq) : val := vlist ventry b.
Definition run_without_isolated (b : bpseq) : val := vbpseq (without_isolated b).
Definition run_without_pk (b : bpseq) (db : list ascii) : val := vres vbpseq (without_pseudoknots_of b db).
