(* Entry points of the geometric cores for the correspondence check (coordinates as integers on a
   2^-20 Angstrom grid; the cores are homogeneous polynomials, so the scale cancels). *)
From Coq Require Import String Ascii ZArith List Bool.
From RV Require Import Base.Val Model.Geom.
Import ListNotations.

Definition P (x y z : Z) : vecZ := (x, y, z).

(* [y1 (without |v2|); x; y2 (times |v2|); |v2|^2; |n1|^2; |n2|^2] *)
Definition run_torsion (p1 p2 p3 p4 : vecZ) : list Z :=
  [t1yZ p1 p2 p3 p4; t1xZ p1 p2 p3 p4; t2yZ p1 p2 p3 p4; v2l2Z p1 p2 p3 p4; n1l2Z p1 p2 p3 p4; n2l2Z p1 p2 p3 p4].

(* ---- clashes *)
From Coq Require Import QArith.
From RV Require Import Base.PyStr Model.Clash.
Definition mkatom (res : nat) (nuc : bool) (name : str) (occ100 : option Z) (x y z : Z) : catom :=
  {| a_res := res; a_nuc := nuc; a_name := name;
     a_occ := match occ100 with Some v => Some (v # 100) | None => None end; a_pos := (x, y, z) |}.
Definition mkopts (n : nat) : opts :=
  {| o_ignore_occ := Nat.testbit n 0; o_ignore_auto := Nat.testbit n 1; o_nucleic_only := Nat.testbit n 2;
     o_same_name := Nat.testbit n 3; o_molprobity := Nat.testbit n 4 |}.
Definition run_clashes (n : nat) (atoms : list catom) : val :=
  match find_clashes (mkopts n) atoms with
  | Ok l => vlist (vpair vnat vnat) l
  | Raise e => VE (exn_name e)
  end.
(* all 32 option sets at once *)
Definition run_clashes_all (atoms : list catom) : val := VL (map (fun n => run_clashes n atoms) (seq 0 32)).

(* the report's running maxima per key (clashfinder.main): keys are pairs of numbers, sums exact rationals *)
Definition run_group_max (l : list ((nat * nat) * Q)) : val :=
  vlist (fun kv => VL [vnat (fst (fst kv)); vnat (snd (fst kv)); VZ (Qnum (Qred (snd kv))); VZ (Zpos (Qden (Qred (snd kv))))]) (group_max l).

(* ---- annotation *)
From RV Require Import Model.Annot.
Definition mkres (model : Z) (chain : str) (number : Z) (icode : option str) (letter : str) (atoms : list (str * (Z * Z * Z))) : res3 :=
  {| r_model := model; r_chain := chain; r_number := number; r_icode := icode; r_letter := letter; r_atoms := atoms |}.
Definition vtriple (t : nat * nat * nat) : val := match t with (a, b, c) => VL [vnat a; vnat b; vnat c] end.
Definition run_find_pairs (rs : list res3) (order : list (nat * nat)) : val :=
  let o := find_pairs rs order in
  VL [vbool (po_near o);
      vlist (fun p => match p with (i, j, lw, sa) => VL [vnat i; vnat j; vstr lw; match sa with Some s => vstr s | None => VN end] end) (po_pairs o);
      vlist vtriple (po_bph o); vlist vtriple (po_br o)].
Definition run_backbone_contacts (rs : list res3) (order : list (nat * nat)) : val :=
  let o := find_pairs rs order in VL [vbool (po_near o); vlist vtriple (po_bph o); vlist vtriple (po_br o)].
Definition run_find_stackings (rs : list res3) (order : list (nat * nat)) : val :=
  let o := find_stackings rs order in
  VL [vbool (so_near o); vlist (fun p => match p with (i, j, t) => VL [vnat i; vnat j; VS t] end) (so_stackings o)].
Definition run_hbond_neighbours (rs : list res3) : val := vlist (vpair vnat vnat) (hbond_neighbours rs).
Definition run_stacking_neighbours (rs : list res3) : val := vlist (vpair vnat vnat) (stacking_neighbours rs).

(* ---- 3D -> 2D mapping *)
From RV Require Import Model.Mapping.
Definition mkmres (chain : str) (number : Z) (icode : option str) (letter : str) (nuc conn : bool) : mres :=
  {| m_chain := chain; m_number := number; m_icode := icode; m_letter := letter; m_nucleotide := nuc; m_connected_prev := conn |}.
Definition mkipair (i j : option nat) (lw : str) (sa : option str) : ipair := {| p_i := i; p_j := j; p_lw := lw; p_sa := sa |}.
Definition ventry3 (e : nat * str * nat) : val := match e with (i, c, p) => VL [vnat i; vstr c; vnat p] end.
(* the per-strand text of Mapping2D3D.dot_bracket for a given whole-structure dot-bracket *)
Definition run_strand_texts (gaps : bool) (rs : list mres) (db : str) : val :=
  vlist (fun x => VL [vstr (fst (fst x)); vstr (snd (fst x)); vstr (snd x)]) (strand_texts gaps rs db).
Definition run_mapping (gaps : bool) (rs : list mres) (ps : list ipair) : val :=
  VL [match mapping_bpseq gaps rs ps with Ok b => vlist ventry3 b | Raise e => VE (exn_name e) end;
      vlist (vpair vstr vstr) (strands gaps rs);
      vlist (fun r => VL [vstr (fst r); vlist (vpair vnat vnat)
                                              (flat_map (fun e => match e with (i, _, p) => if i <? p then [(i, p)] else [] end) (snd r))])
            (extended_rows gaps rs ps)].
