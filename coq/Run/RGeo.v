(* Entry points of the geometric cores for the correspondence check (coordinates as integers on a
   2^-20 Angstrom grid; the cores are homogeneous polynomials, so the scale cancels). *)
From Coq Require Import String Ascii ZArith List Bool.
From RV Require Import Base.Val Model.Geom.
Import ListNotations.

Definition P (x y z : Z) : vecZ := (x, y, z).

(* [y1 (without |v2|); x; y2 (times |v2|); |v2|^2; |n1|^2; |n2|^2] *)
Definition run_torsion (p1 p2 p3 p4 : vecZ) : list Z :=
  [t1yZ p1 p2 p3 p4; t1xZ p1 p2 p3 p4; t2yZ p1 p2 p3 p4; v2l2Z p1 p2 p3 p4; n1l2Z p1 p2 p3 p4; n2l2Z p1 p2 p3 p4].
