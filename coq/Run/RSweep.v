(* Exhaustive sweeps evaluated inside Coq: the harness sends, for every string of a finite
   language in a fixed enumeration order, a one-character code of the implementation's answer. *)
From Coq Require Import String Ascii ZArith List Bool Arith.
From RV Require Import Base.Val Base.PyStr Gen.Common Gen.Adapter Model.Fr3d Run.RIO.
Import ListNotations.

Definition fr3d_alphabet : list ascii := L "nactCTWHSwhsBRPh0359".

(* all strings of length m over the alphabet, in the order of itertools.product *)
Fixpoint strings_of (alpha : list ascii) (m : nat) : list str :=
  match m with
  | 0 => [[]]
  | S m' => flat_map (fun c => map (cons c) (strings_of alpha m')) alpha
  end.

Definition index_in (l : list (string * string)) (v : str) : nat :=
  (fix go (l : list (string * string)) (i : nat) :=
     match l with [] => 99 | kv :: t => if str_eqb (list_ascii_of_string (snd kv)) v then i else go t (S i) end) l 0.

Definition stack_order : list (string * string) :=
  [("upward", "upward"); ("downward", "downward"); ("inward", "inward"); ("outward", "outward")]%string.

Definition code_of (r : result (str * option str)) : nat :=
  match r with
  | Raise _ => 90
  | Ok (cat, cls) =>
      if str_eqb cat (L "other") then 0
      else match cls with
           | None => 91
           | Some v =>
               if str_eqb cat (L "base-pair") then 1 + index_in lw_members v
               else if str_eqb cat (L "stacking") then 19 + index_in stack_order v
               else if str_eqb cat (L "base-ribose") then 23 + index_in br_members v
               else if str_eqb cat (L "base-phosphate") then 33 + index_in bph_members v
               else 91
           end
  end.

(* the (0-based) positions, in enumeration order, where the model's code differs *)
Definition run_sweep (first : str) (m : nat) (codes : str) : val :=
  let labels := map (app first) (strings_of fr3d_alphabet m) in
  let got := map (fun l => ascii_of_nat (40 + code_of (unify l))) labels in
  vlist vnat
    ((fix go (a b : list ascii) (i : nat) : list nat :=
        match a, b with
        | x :: a', y :: b' => if Ascii.eqb x y then go a' b' (S i) else i :: go a' b' (S i)
        | [], [] => []
        | _, _ => [i]
        end) got codes 0).

(* interactions of a listing grouped by category in the implementation's order *)
Definition run_import_sorted (lines : list str) : val :=
  match import_lines lines with
  | Raise e => VE (exn_name e)
  | Ok l =>
      VL (flat_map (fun cat => map vinter (filter (fun i => str_eqb (i_category i) (L cat)) l))
                   ["base-pair"; "stacking"; "base-ribose"; "base-phosphate"; "other"]%string)
  end.
