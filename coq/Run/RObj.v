(* Entry point of the object machine for the correspondence check. Glue, no proofs. *)
From Coq Require Import String Ascii ZArith List Bool Arith.
From RV Require Import Base.Val Gen.Common Model.Bpseq Model.AllDb Model.Elements Model.Obj Run.R2D.
Import ListNotations.

Definition op_of (n : nat) : op :=
  match n with
  | 0 => OStr | 1 => OPairs | 2 => OSeq | 3 => ODotBracket | 4 => OFcfs | 5 => OAllDb | 6 => OElements
  | 7 => OWithoutIsolated | _ => OWithoutPk
  end.

Definition vanswer (a : answer) : val :=
  match a with
  | AText s => vstr s
  | APairs l => vpairs l
  | AResult r => vres vstr r
  | AObject b => vlist (fun e => vnat (pair e)) b
  | AUnobserved => VZ 0
  end.

(* the dot-bracket oracle as a table keyed by the pair column; FCFS when absent *)
Definition table_dbo (t : list (list nat * list ascii)) (b : bpseq) : list ascii :=
  match find (fun kv => list_nat_eqb (fst kv) (map pair b)) t with
  | Some kv => snd kv
  | None => match fcfs b with Ok s => s | Raise _ => [] end
  end.

Definition run_history_t (t : list (list nat * list ascii)) (b : bpseq) (h : list (nat * nat)) : val :=
  vlist vanswer (run (table_dbo t) (init b) (map (fun p => (fst p, op_of (snd p))) h)).
Definition run_pure_history_t (t : list (list nat * list ascii)) (b : bpseq) (h : list (nat * nat)) : val :=
  vlist vanswer (pure_run (table_dbo t) [b] (map (fun p => (fst p, op_of (snd p))) h)).
