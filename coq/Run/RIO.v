(* Entry points of the import/export models for the correspondence check. Glue, no proofs. *)
From Coq Require Import String Ascii ZArith List Bool Arith.
From RV Require Import Base.Val Base.PyStr Gen.Common Gen.Adapter Model.Fr3d.
Import ListNotations.

Definition vres' {A} (f : A -> val) (r : result A) : val :=
  match r with Ok a => f a | Raise e => VE (exn_name e) end.
Definition vostr (o : option str) : val := match o with Some s => vstr s | None => VN end.

Definition run_unify (s : str) : val := vres' (fun p => VL [vstr (fst p); vostr (snd p)]) (unify s).
Definition run_parse_int (s : str) : val := vres' VZ (parse_int s).
Definition vresid (r : residue_id) : val := VL [vstr (r_chain r); VZ (r_number r); vostr (r_icode r); vstr (r_name r)].
Definition run_unit_id (s : str) : val := vres' vresid (parse_unit_id s).
Definition vinter (i : interaction) : val := VL [vstr (i_category i); vresid (i_nt1 i); vresid (i_nt2 i); vostr (i_class i)].
Definition run_import (lines : list str) : val := vres' (vlist vinter) (import_lines lines).
Definition run_dssr_pairs (names : list str) (pairs : list (option str * option str * option str)) : val :=
  vres' (vlist (fun t => VL [vnat (fst (fst t)); vnat (snd (fst t)); vstr (snd t)])) (dssr_pairs names pairs).
Definition run_dssr_stack (names : list str) (nts : str) : val :=
  vlist (vpair vnat vnat) (dssr_stack names nts).
