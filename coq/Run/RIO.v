(* Entry points of the import/export models for the correspondence check. Glue, no proofs. *)
From Coq Require Import String Ascii ZArith List Bool Arith.
From RV Require Import Base.Val Base.PyStr Gen.Common Gen.Adapter Model.Fr3d.
Import ListNotations.

Definition vres' {A} (f : A -> val) (r : result A) : val :=
  match r with Ok a => f a | Raise e => VE (exn_name e) end.
Definition vostr (o : option str) : val := match o with Some s => vstr s | None => VN end.

Definition run_unify (s : str) : val := vres' (fun p => VL [vstr (fst p); vostr (snd p)]) (unify s).
Definition run_parse_int (s : str) : val := vres' VZ (parse_int s).
Definition vresid (r : residue_id) : val := VL [vstr (r_chain r); VZ (r_number r); vostr (r_icode r); vstr (r_name r)].
Definition run_unit_id (s : str) : val := vres' vresid (parse_unit_id s).
Definition vinter (i : interaction) : val := VL [vstr (i_category i); vresid (i_nt1 i); vresid (i_nt2 i); vostr (i_class i)].
Definition run_import (lines : list str) : val := vres' (vlist vinter) (import_lines lines).
Definition run_dssr_pairs (names : list str) (pairs : list (option str * option str * option str)) : val :=
  vres' (vlist (fun t => VL [vnat (fst (fst t)); vnat (snd (fst t)); vstr (snd t)])) (dssr_pairs names pairs).
Definition run_dssr_stack (names : list str) (nts : str) : val :=
  vlist (vpair vnat vnat) (dssr_stack names nts).

(* ---- mmCIF documents *)
From RV Require Import Model.CifDoc.
Definition mkdoc (l : list (str * list str * list (list str))) : doc :=
  map (fun t => {| c_name := fst (fst t); c_attrs := snd (fst t); c_rows := snd t |}) l.
Definition vdoc (d : doc) : val :=
  vlist (fun c => VL [vstr (c_name c); vlist vstr (c_attrs c); vlist (vlist vstr) (c_rows c)]) d.
Definition run_copy (d : list (str * list str * list (list str))) (cat from to : str) : val :=
  match copy_item (mkdoc d) cat from to with Some d' => vdoc d' | None => VN end.
Definition run_replace (d : list (str * list str * list (list str))) (cat col values : str) : val :=
  match replace_item (mkdoc d) cat col values with
  | Raise e => VE (exn_name e)
  | Ok None => VN
  | Ok (Some (d', m)) => VL [vdoc d'; vlist (vpair vstr vstr) m]
  end.

(* documents are compared as sorted-by-name category lists (category order is not observed) *)
From RV Require Import Model.AllDb.
Fixpoint insert_cat (c : category) (l : list category) : list category :=
  match l with
  | [] => [c]
  | d :: t => if str_ltb (c_name d) (c_name c) then d :: insert_cat c t else c :: l
  end.
Definition sort_doc (d : doc) : doc := fold_right insert_cat [] d.
Definition run_copy_sorted (d : list (str * list str * list (list str))) (cat from to : str) : val :=
  match copy_item (mkdoc d) cat from to with Some d' => vdoc (sort_doc d') | None => VN end.
Definition run_replace_sorted (d : list (str * list str * list (list str))) (cat col values : str) : val :=
  match replace_item (mkdoc d) cat col values with
  | Raise e => VE (exn_name e)
  | Ok None => VN
  | Ok (Some (d', m)) => VL [vdoc (sort_doc d'); vlist (vpair vstr vstr) m]
  end.

(* ---- PDB text codec *)
From RV Require Import Model.PdbLine.
Definition mkrec (t : str) (serial : Z) (name alt resname chain : str) (resseq : Z) (icode : str)
           (x y z occ b : Z) (element charge : str) (model : Z) : atom_rec :=
  {| ar_type := t; ar_serial := serial; ar_name := name; ar_alt := alt; ar_resname := resname; ar_chain := chain;
     ar_resseq := resseq; ar_icode := icode; ar_x := x; ar_y := y; ar_z := z; ar_occ := occ; ar_b := b;
     ar_element := element; ar_charge := charge; ar_model := model |}.
Definition voz (o : option Z) : val := match o with Some z => VZ z | None => VN end.
Definition vparsed (p : parsed_rec) : val :=
  VL [vstr (p_type p); voz (p_serial p); vstr (p_name p); vstr (p_alt p); vstr (p_resname p); vstr (p_chain p);
      voz (p_resseq p); vstr (p_icode p); voz (p_x p); voz (p_y p); voz (p_z p); voz (p_occ p); voz (p_b p);
      vstr (p_element p); vstr (p_charge p); VZ (p_model p)].
Definition run_format_line (a : atom_rec) : val := vstr (format_line a).
Definition run_parse_pdb (lines : list str) : val := vlist vparsed (parse_pdb lines).
Definition run_write_pdb (l : list atom_rec) : val := vlist vstr (write_pdb l).
(* parse (format a) as one value: the round trip inside the model *)
Definition run_roundtrip_line (a : atom_rec) : val := vlist vparsed (parse_lines (ar_model a) [format_line a]).

(* ---- fitting to PDB limits *)
From RV Require Import Model.Fit.
Definition mkfrow (serial : Z) (chain : str) (resseq : Z) (icode : str) (id : nat) : frow :=
  {| f_serial := serial; f_chain := chain; f_resseq := resseq; f_icode := icode; f_id := id |}.
Definition run_fit (is_pdb : bool) (t : list frow) : val :=
  match fit is_pdb t with
  | Unchanged => VS "unchanged"
  | Refused => VE "ValueError"
  | Fitted t' => vlist (fun r => VL [VZ (f_serial r); vstr (f_chain r); VZ (f_resseq r); vstr (f_icode r); vnat (f_id r)]) t'
  end.

(* ---- residue-level reader *)
From RV Require Import Model.Reader1.
Definition mkatom1 (label : option (str * Z * str)) (auth : option (str * Z * option str * str)) (model : Z) (name : str)
           (x y z : Z) (occ : option Z) : atom1 :=
  {| a1_label := label;
     a1_auth := match auth with Some (c, n, ic, rn) => Some {| i_chain := c; i_number := n; i_icode := ic; i_resname := rn |} | None => None end;
     a1_model := model; a1_name := name; a1_pos := (x, y, z); a1_occ := occ; a1_entity := None |}.
Definition vident (o : option ident) : val :=
  match o with Some i => VL [vstr (i_chain i); VZ (i_number i); vostr (i_icode i); vstr (i_resname i)] | None => VN end.
Definition vatom1 (a : atom1) : val :=
  match a1_pos a with (x, y, z) => VL [vstr (a1_name a); VZ x; VZ y; VZ z; voz (a1_occ a)] end.
Definition vresidue (g : list atom1) : val :=
  match g with
  | a :: _ => VL [vident (a1_auth a); VZ (a1_model a); vlist vatom1 g]
  | [] => VN
  end.
Definition run_read (atoms : list atom1) (model : option Z) : val :=
  match read_structure atoms model with Ok gs => vlist vresidue gs | Raise e => VE (exn_name e) end.
Definition run_read_pdb (lines : list str) (model : option Z) : val :=
  match decode_pdb 1 lines with
  | Raise e => VE (exn_name e)
  | Ok atoms => run_read atoms model
  end.

(* ---------------------------------------------------------------- residue grouping of the table-level reader (C15) *)
From RV Require Import Model.Group2.
(* residues as lists of atom serial numbers, listed by first occurrence *)
Definition run_residues_v2 (lines : list str) : val :=
  vlist (vlist (fun p => voz (p_serial p))) (residues_v2 (parse_pdb lines)).
(* connected_residues of one chain: residues 0..n-1 in (number, insertion code) order, links[i] = O3'(i)-P(i+1) test *)
Definition run_segments (links : list bool) (n : nat) : val :=
  vlist (vlist (fun i => VZ (Z.of_nat i))) (segments (fun i _ => nth i links false) (seq 0 n)).
