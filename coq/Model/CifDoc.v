(* M-IO: mmCIF item editing at document level (transformer.py). Executable, no proofs.
   A document is the first data block: categories with attribute names and rows of values;
   tokenising/quoting is the mmcif library's (an oracle). *)
From Coq Require Import String Ascii ZArith List Bool Arith.
From RV Require Import Base.Val Base.PyStr Model.Bpseq.
Import ListNotations.

Record category := { c_name : str; c_attrs : list str; c_rows : list (list str) }.
Definition doc := list category.

Fixpoint index_str (x : str) (l : list str) : option nat :=
  match l with
  | [] => None
  | y :: t => if str_eqb x y then Some 0 else option_map S (index_str x t)
  end.

Definition find_cat (d : doc) (name : str) : option category :=
  find (fun c => str_eqb (c_name c) name) d.
Definition replace_cat (d : doc) (c' : category) : doc :=
  map (fun c => if str_eqb (c_name c) (c_name c') then c' else c) d.

(* copy_from_to: None = the text is returned unchanged *)
Definition copy_row (i j : nat) (row : list str) : list str :=
  match nth_error row i with
  | Some v => if length row <=? j then row ++ [v] else set_nth row j v
  | None => row            (* row[i] would raise IndexError: ragged rows are outside the guard *)
  end.
Definition copy_item (d : doc) (cat from to : str) : option doc :=
  match find_cat d cat with
  | None => None
  | Some c =>
      match index_str from (c_attrs c) with
      | None => None
      | Some i =>
          let attrs := match index_str to (c_attrs c) with Some _ => c_attrs c | None => c_attrs c ++ [to] end in
          match index_str to attrs with
          | Some j => Some (replace_cat d {| c_name := c_name c; c_attrs := attrs; c_rows := map (copy_row i j) (c_rows c) |})
          | None => None
          end
      end
  end.

(* replace_value: first-seen mapping onto the characters of `values` *)
Definition assoc_find (k : str) (m : list (str * str)) : option str :=
  match find (fun kv => str_eqb (fst kv) k) m with Some kv => Some (snd kv) | None => None end.

Fixpoint replace_rows (i : nat) (values : str) (m : list (str * str)) (rows : list (list str))
  : result (list (list str) * list (str * str)) :=
  match rows with
  | [] => Ok ([], m)
  | row :: rest =>
      match nth_error row i with
      | None => Raise IndexError
      | Some v =>
          let step (m' : list (str * str)) (img : str) :=
            match replace_rows i values m' rest with
            | Ok (rs, mf) => Ok (set_nth row i img :: rs, mf)
            | Raise e => Raise e
            end in
          match assoc_find v m with
          | Some img => step m img
          | None =>
              match nth_error values (length m) with
              | Some ch => step (m ++ [(v, [ch])]) [ch]
              | None => Raise IndexError          (* alphabet too short *)
              end
          end
      end
  end.

Definition replace_item (d : doc) (cat col values : str) : result (option (doc * list (str * str))) :=
  match find_cat d cat with
  | None => Ok None
  | Some c =>
      match index_str col (c_attrs c) with
      | None => Ok None
      | Some i =>
          match replace_rows i values [] (c_rows c) with
          | Ok (rows, m) => Ok (Some (replace_cat d {| c_name := c_name c; c_attrs := c_attrs c; c_rows := rows |}, m))
          | Raise e => Raise e
          end
      end
  end.
