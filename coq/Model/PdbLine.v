(* M-IO: the PDB text codec of parser_v2.py — line formatter, column reader, record logic of write_pdb.
   Coordinates are fixed-point thousandths, occupancy/B hundredths.  Executable, no proofs. *)
From Coq Require Import String Ascii ZArith NArith List Bool Arith.
From RV Require Import Base.Val Base.PyStr Gen.ParserV2.
Import ListNotations.

Record atom_rec := {
  ar_type : str; ar_serial : Z; ar_name : str; ar_alt : str; ar_resname : str; ar_chain : str;
  ar_resseq : Z; ar_icode : str; ar_x : Z; ar_y : Z; ar_z : Z; ar_occ : Z; ar_b : Z;
  ar_element : str; ar_charge : str; ar_model : Z }.

Definition is_alpha_char (c : ascii) : bool :=
  let n := nat_of_ascii c in ((65 <=? n) && (n <=? 90)) || ((97 <=? n) && (n <=? 122)).

(* atom name alignment: 1-3 characters starting with a letter are shifted one column to the right *)
Definition fmt_name (name : str) : str :=
  if (length name <? 4) && match name with c :: _ => is_alpha_char c | [] => false end
  then ljust 4 (space :: name) else ljust 4 name.

(* int(float(text)) on the texts a charge can hold: optional sign, digits, optional ".0..." *)
Definition charge_int (c : str) : option Z :=
  match parse_fixed 6 (strip c) with
  | Some v => Some (Z.quot v 1000000)
  | None => None
  end.
Definition fmt_charge (c : str) : str :=
  match c with
  | [] => [space; space]
  | _ =>
      let raw := match charge_int c with
                 | Some k => if (k =? 0)%Z then [] else n_str (Z.abs_N k) ++ [if (0 <? k)%Z then "+"%char else "-"%char]
                 | None => c
                 end in
      rjust 2 (firstn 2 (strip raw))
  end.

Definition format_line (a : atom_rec) : str :=
  ljust 80
    (ljust 6 (ar_type a) ++ rjust 5 (z_str (ar_serial a)) ++ [space] ++ fmt_name (ar_name a) ++
     ljust 1 (firstn 1 (ar_alt a)) ++ rjust 3 (ar_resname a) ++ [space] ++ ljust 1 (firstn 1 (ar_chain a)) ++
     rjust 4 (z_str (ar_resseq a)) ++ ljust 1 (firstn 1 (ar_icode a)) ++ repeat space 3 ++
     fmt_fixed 8 3 (ar_x a) ++ fmt_fixed 8 3 (ar_y a) ++ fmt_fixed 8 3 (ar_z a) ++
     fmt_fixed 6 2 (ar_occ a) ++ fmt_fixed 6 2 (ar_b a) ++ repeat space 10 ++
     rjust 2 (ar_element a) ++ fmt_charge (ar_charge a)).

(* ---------------------------------------------------------------- reading *)
Definition col (line : str) (key : string) : str :=
  match find (fun kv => String.eqb (fst kv) key) pdb_slices with
  | Some (_, (a, b)) => strip (substr line a b)
  | None => []
  end.

Record parsed_rec := {
  p_type : str; p_serial : option Z; p_name : str; p_alt : str; p_resname : str; p_chain : str;
  p_resseq : option Z; p_icode : str; p_x : option Z; p_y : option Z; p_z : option Z;
  p_occ : option Z; p_b : option Z; p_element : str; p_charge : str; p_model : Z }.

Definition parse_atom_line (model : Z) (line : str) : parsed_rec :=
  {| p_type := col line "record_type"; p_serial := parse_z (col line "serial"); p_name := col line "name";
     p_alt := col line "altLoc"; p_resname := col line "resName"; p_chain := col line "chainID";
     p_resseq := parse_z (col line "resSeq"); p_icode := col line "iCode";
     p_x := parse_fixed 3 (col line "x"); p_y := parse_fixed 3 (col line "y"); p_z := parse_fixed 3 (col line "z");
     p_occ := parse_fixed 2 (col line "occupancy"); p_b := parse_fixed 2 (col line "tempFactor");
     p_element := col line "element"; p_charge := col line "charge"; p_model := model |}.

(* parse_pdb_atoms over lines: MODEL sets the current model (malformed numbers keep the previous one) *)
Fixpoint parse_lines (model : Z) (lines : list str) : list parsed_rec :=
  match lines with
  | [] => []
  | line :: rest =>
      let rt := col line "record_type" in
      if str_eqb rt (list_ascii_of_string "MODEL") then
        match parse_z (col line "MODEL") with
        | Some m => parse_lines m rest
        | None => parse_lines model rest
        end
      else if str_eqb rt (list_ascii_of_string "ATOM") || str_eqb rt (list_ascii_of_string "HETATM")
           then parse_atom_line model line :: parse_lines model rest
           else parse_lines model rest
  end.
Definition parse_pdb (lines : list str) : list parsed_rec := parse_lines 1 lines.

(* ---------------------------------------------------------------- write_pdb record logic *)
Definition ter_line (last_serial : Z) (resname chain : str) (resseq : Z) (icode : str) : str :=
  ljust 80 (list_ascii_of_string "TER   " ++ rjust 5 (z_str (last_serial + 1)) ++ repeat space 6 ++
            rjust 3 (strip resname) ++ [space] ++ chain ++ rjust 4 (z_str resseq) ++ icode).
Definition model_line (m : Z) : str := list_ascii_of_string "MODEL     " ++ rjust 4 (z_str m).

Record wstate := { w_model : option Z; w_chain : option str; w_res : Z * str * str; w_serial : Z }.

Definition close_chain (st : wstate) : list str :=
  match w_chain st with
  | Some ch => match w_res st with (rs, ic, rn) => [ter_line (w_serial st) rn ch rs ic] end
  | None => []
  end.

Fixpoint write_go (st : wstate) (l : list atom_rec) : list str :=
  match l with
  | [] => close_chain st ++ (match w_model st with Some _ => [list_ascii_of_string "ENDMDL"] | None => [] end)
             ++ [list_ascii_of_string "END"]
  | a :: rest =>
      let new_model := match w_model st with Some m => negb (m =? ar_model a)%Z | None => true end in
      let pre_model := if new_model then
                         (match w_model st with
                          | Some _ => (if ter_before_every_endmdl then close_chain st else []) ++ [list_ascii_of_string "ENDMDL"]
                          | None => [] end) ++ [model_line (ar_model a)]
                       else [] in
      let st1 := if new_model then {| w_model := Some (ar_model a); w_chain := None; w_res := w_res st; w_serial := w_serial st |} else st in
      let ter := match w_chain st1 with
                 | Some ch => if str_eqb ch (ar_chain a) then [] else close_chain st1
                 | None => [] end in
      pre_model ++ ter ++ [format_line a] ++
      write_go {| w_model := w_model st1; w_chain := Some (ar_chain a);
                  w_res := (ar_resseq a, ar_icode a, ar_resname a); w_serial := ar_serial a |} rest
  end.
Definition write_pdb (l : list atom_rec) : list str :=
  match l with
  | [] => [list_ascii_of_string "END"]
  | _ => write_go {| w_model := None; w_chain := None; w_res := (0%Z, [], []); w_serial := 0%Z |} l
  end.
