(* Boolean spec checkers for M-2D: decide, for an implementation answer, whether it satisfies
   the property as stated (independently of how the model would compute the answer). *)
From Coq Require Import String Ascii ZArith List Bool Arith.
From RV Require Import Base.Val Gen.Common Model.Bpseq.
Import ListNotations.

Fixpoint list_eqb {A} (eqb : A -> A -> bool) (a b : list A) : bool :=
  match a, b with
  | [], [] => true
  | x :: a', y :: b' => eqb x y && list_eqb eqb a' b'
  | _, _ => false
  end.
Definition pair_eqb (p q : nat * nat) : bool := (fst p =? fst q) && (snd p =? snd q).

Definition in_alphabet (c : ascii) : bool :=
  Ascii.eqb c dot || existsb (Ascii.eqb c) opening || existsb (Ascii.eqb c) closing.

(* s is a lossless dot-bracket of b: right length, alphabet only, balanced per type, and it
   decodes to exactly the pairs of b *)
Definition lossless (b : bpseq) (s : list ascii) : bool :=
  (length s =? length b) && forallb in_alphabet s && balanced s &&
  match parse_db s with
  | Ok ps => list_eqb pair_eqb ps (pairs0 b)
  | Raise _ => false
  end.

(* level of a bracket character *)
Definition level_of (c : ascii) : option nat :=
  match index_of c opening with Some t => Some t | None => index_of c closing end.
