(* M-3D: clash detection (clashfinder.py) by the pairwise definition, exact on the coordinate grid. *)
From Coq Require Import String Ascii ZArith QArith List Bool Arith.
From RV Require Import Base.Val Base.PyStr Gen.Clash Model.Geom.
Import ListNotations.

Definition GRID : Z := 1048576.     (* 2^20 grid units per Angstrom *)

Record catom := {
  a_res : nat;              (* index of the residue in the structure *)
  a_nuc : bool;             (* residue.is_nucleotide *)
  a_name : str;
  a_occ : option Q;         (* None = absent *)
  a_pos : vecZ }.

Record opts := { o_ignore_occ : bool; o_ignore_auto : bool; o_nucleic_only : bool; o_same_name : bool; o_molprobity : bool }.

Definition radius_of_char (c : ascii) : option Q :=
  match find (fun kv => str_eqb (list_ascii_of_string (fst kv)) [c]) radii with
  | Some kv => Some (snd kv) | None => None end.

(* AtomType.matches: atom.name.strip().startswith(type) *)
Definition typed (a : catom) : bool :=
  existsb (fun kv => starts_with (list_ascii_of_string (fst kv)) (strip (a_name a))) radii.

Definition considered (o : opts) (a : catom) : bool :=
  (negb (o_nucleic_only o) || a_nuc a) && typed a.

Definition margin (o : opts) : Q := if o_molprobity o then molprobity_margin else 0.
Definition max_radius : Q := fold_right (fun kv m => if Qle_bool m (snd kv) then snd kv else m) 0 radii.
Definition query_radius (o : opts) : Q := query_radius_factor * max_radius + margin o.

Definition within (thr : Q) (a b : catom) : bool :=
  Qle_bool (inject_Z (dist2Z (a_pos a) (a_pos b))) ((thr * inject_Z GRID) * (thr * inject_Z GRID)).

(* (x or 1.0): None and 0.0 both become 1.0 *)
Definition occ_or_one (x : option Q) : Q :=
  match x with Some q => if Qeq_bool q 0 then 1 else q | None => 1 end.
Definition occ_sum (a b : catom) : Q := occ_or_one (a_occ a) + occ_or_one (a_occ b).

(* is the ordered candidate (a, b) a reported clash?  AtomType[name[0]] raises KeyError when the first
   character is not a member *)
Definition clash (o : opts) (a b : catom) : result bool :=
  if negb (within (query_radius o) a b) then Ok false         (* never offered by the neighbour search *)
  else if o_ignore_auto o && (a_res a =? a_res b) then Ok false
  else if o_same_name o && negb (str_eqb (a_name a) (a_name b)) then Ok false
  else match a_name a, a_name b with
       | ca :: _, cb :: _ =>
           match radius_of_char ca, radius_of_char cb with
           | Some ra, Some rb =>
               if negb (within (ra + rb + margin o) a b) then Ok false
               else Ok (o_ignore_occ o || Qeq_bool (occ_sum a b) 1)
           | _, _ => Raise KeyError
           end
       | _, _ => Raise IndexError
       end.

(* all unordered pairs i < j of considered atoms (indices into the given atom list) that clash *)
Definition candidate (o : opts) (a b : catom) : result bool :=
  if considered o a && considered o b then clash o a b else Ok false.

Fixpoint clash_row (o : opts) (a : catom) (i j : nat) (r : list catom) : result (list (nat * nat)) :=
  match r with
  | [] => Ok []
  | b :: r' =>
      match candidate o a b, clash_row o a i (S j) r' with
      | Ok true, Ok t => Ok ((i, j) :: t)
      | Ok false, Ok t => Ok t
      | Raise e, _ => Raise e
      | _, Raise e => Raise e
      end
  end.

Fixpoint clashes_from (o : opts) (i : nat) (l : list catom) : result (list (nat * nat)) :=
  match l with
  | [] => Ok []
  | a :: rest =>
      match clash_row o a i (S i) rest, clashes_from o (S i) rest with
      | Ok r1, Ok r2 => Ok (r1 ++ r2)
      | Raise e, _ => Raise e
      | _, Raise e => Raise e
      end
  end.

Definition find_clashes (o : opts) (atoms : list catom) : result (list (nat * nat)) :=
  if length (filter (considered o) atoms) <? 2 then Ok [] else clashes_from o 0 atoms.

(* report aggregation: running maximum per key *)
Fixpoint upd_max (k : nat * nat) (v : Q) (m : list ((nat * nat) * Q)) : list ((nat * nat) * Q) :=
  match m with
  | [] => [(k, if Qle_bool 0 v then v else 0)]
  | (k', v') :: t =>
      if (fst k =? fst k') && (snd k =? snd k') then (k', if Qle_bool v' v then v else v') :: t
      else (k', v') :: upd_max k v t
  end.
Definition group_max (l : list ((nat * nat) * Q)) : list ((nat * nat) * Q) :=
  fold_left (fun m kv => upd_max (fst kv) (snd kv) m) l [].
