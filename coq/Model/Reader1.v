(* M-IO: the residue-level reader (parser.py): PDB column decoding, duplicate/alt-loc filter, 0.5 A clash
   filter, model selection, grouping into residues.  Coordinates: thousandths of an Angstrom (as written in
   the file), occupancy: hundredths.  Executable, no proofs. *)
From Coq Require Import String Ascii ZArith QArith List Bool Arith.
From RV Require Import Base.Val Base.PyStr Gen.Parser Model.Geom.
Import ListNotations.

Record ident := { i_chain : str; i_number : Z; i_icode : option str; i_resname : str }.
Record atom1 := {
  a1_label : option (str * Z * str);     (* label chain, seq id, comp id *)
  a1_auth : option ident;
  a1_model : Z; a1_name : str; a1_pos : Z * Z * Z; a1_occ : option Z; a1_entity : option str }.

Definition ostr_eqb (a b : option str) : bool :=
  match a, b with Some x, Some y => str_eqb x y | None, None => true | _, _ => false end.
Definition ident_eqb (a b : ident) : bool :=
  str_eqb (i_chain a) (i_chain b) && (i_number a =? i_number b)%Z && ostr_eqb (i_icode a) (i_icode b) && str_eqb (i_resname a) (i_resname b).
Definition oident_eqb (a b : option ident) : bool :=
  match a, b with Some x, Some y => ident_eqb x y | None, None => true | _, _ => false end.
Definition label_eqb (a b : option (str * Z * str)) : bool :=
  match a, b with
  | Some (c1, n1, r1), Some (c2, n2, r2) => str_eqb c1 c2 && (n1 =? n2)%Z && str_eqb r1 r2
  | None, None => true | _, _ => false end.

(* the duplicate key: (label, auth, [model,] name) *)
Definition same_key (a b : atom1) : bool :=
  label_eqb (a1_label a) (a1_label b) && oident_eqb (a1_auth a) (a1_auth b) &&
  (negb dedup_key_has_model || (a1_model a =? a1_model b)%Z) && str_eqb (a1_name a) (a1_name b).

(* atom.occupancy > kept.occupancy raises TypeError when either is None *)
Definition occ_gt (a b : option Z) : result bool :=
  match a, b with Some x, Some y => Ok (y <? x)%Z | _, _ => Raise TypeError end.

(* dict semantics: first occurrence fixes the position, a strictly higher occupancy replaces the value *)
Fixpoint dedup_insert (a : atom1) (l : list atom1) : result (list atom1) :=
  match l with
  | [] => Ok [a]
  | b :: t =>
      if same_key a b then
        match occ_gt (a1_occ a) (a1_occ b) with
        | Ok true => Ok (a :: t) | Ok false => Ok (b :: t) | Raise e => Raise e end
      else match dedup_insert a t with Ok t' => Ok (b :: t') | Raise e => Raise e end
  end.
Definition dedup (atoms : list atom1) : result (list atom1) :=
  fold_left (fun acc a => match acc with Ok l => dedup_insert a l | Raise e => Raise e end) atoms (Ok []).

(* squared distance in (thousandths)^2 compared with (clash_distance * 1000)^2; query_pairs is inclusive *)
Definition close (a b : atom1) : bool :=
  let d2 := dist2Z (a1_pos a) (a1_pos b) in
  Qle_bool (inject_Z d2) ((clash_distance * 1000) * (clash_distance * 1000)).

(* indices discarded by the clash filter: for every close pair i < j (same model when the filter is per model,
   both occupancies present) the one with the lower occupancy, the earlier on a tie *)
Definition discarded (l : list atom1) : list nat :=
  flat_map (fun ia =>
    flat_map (fun jb =>
      let '(i, a) := ia in let '(j, b) := jb in
      if (i <? j) && close a b && (negb clash_filter_per_model || (a1_model a =? a1_model b)%Z) then
        match a1_occ a, a1_occ b with
        | Some oa, Some ob => if (ob <? oa)%Z then [j] else [i]
        | _, _ => []
        end
      else []) (combine (seq 0 (length l)) l)) (combine (seq 0 (length l)) l).

Definition filter_clashing (atoms : list atom1) : result (list atom1) :=
  match dedup atoms with
  | Raise e => Raise e
  | Ok l =>
      let dis := discarded l in
      Ok (map snd (filter (fun ia => negb (existsb (Nat.eqb (fst ia)) dis)) (combine (seq 0 (length l)) l)))
  end.

(* read_3d_structure: the requested model if present, else the first one in order of appearance *)
Definition select_model (atoms : list atom1) (model : option Z) : list atom1 :=
  match atoms with
  | [] => []
  | a0 :: _ =>
      let m := match model with
               | Some m => if existsb (fun a => (a1_model a =? m)%Z) atoms then m else a1_model a0
               | None => a1_model a0 end in
      filter (fun a => (a1_model a =? m)%Z) atoms
  end.

Definition same_residue (a b : atom1) : bool :=
  label_eqb (a1_label a) (a1_label b) && oident_eqb (a1_auth a) (a1_auth b) && (a1_model a =? a1_model b)%Z.

(* group_atoms: consecutive atoms with the same (label, auth, model) *)
Fixpoint group (atoms : list atom1) : list (list atom1) :=
  match atoms with
  | [] => []
  | a :: rest =>
      match group rest with
      | (b :: g) :: gs => if same_residue a b then (a :: b :: g) :: gs else [a] :: (b :: g) :: gs
      | [] :: gs => [a] :: gs
      | [] => [[a]]
      end
  end.

Definition read_structure (atoms : list atom1) (model : option Z) : result (list (list atom1)) :=
  match filter_clashing atoms with
  | Raise e => Raise e
  | Ok l => Ok (group (select_model l model))
  end.

(* ---------------------------------------------------------------- PDB column decoding (parse_pdb) *)
Definition colv1 (line : str) (key : string) : str :=
  match find (fun kv => String.eqb (fst kv) key) pdb_cols_v1 with
  | Some (_, (a, b)) => substr line a b
  | None => []
  end.
Definition decode_pdb_atom (model : Z) (line : str) : result atom1 :=
  match parse_z (strip (colv1 line "resSeq")),
        parse_fixed 3 (strip (colv1 line "x")), parse_fixed 3 (strip (colv1 line "y")), parse_fixed 3 (strip (colv1 line "z")),
        parse_fixed 2 (strip (colv1 line "occupancy")) with
  | Some n, Some x, Some y, Some z, Some o =>
      match colv1 line "chainID", colv1 line "iCode" with
      | [c], [ic] =>
          Ok {| a1_label := None;
                a1_auth := Some {| i_chain := [c]; i_number := n; i_icode := if Ascii.eqb ic space then None else Some [ic];
                                   i_resname := strip (colv1 line "resName") |};
                a1_model := model; a1_name := strip (colv1 line "name"); a1_pos := (x, y, z); a1_occ := Some o; a1_entity := None |}
      | _, _ => Raise IndexError
      end
  | _, _, _, _, _ => Raise ValueError
  end.

Fixpoint decode_pdb (model : Z) (lines : list str) : result (list atom1) :=
  match lines with
  | [] => Ok []
  | line :: rest =>
      if starts_with (list_ascii_of_string "MODEL") line then
        match parse_z (strip (colv1 line "MODEL")) with
        | Some m => decode_pdb m rest
        | None => Raise ValueError
        end
      else if starts_with (list_ascii_of_string "ATOM") line || starts_with (list_ascii_of_string "HETATM") line then
        match decode_pdb_atom model line, decode_pdb model rest with
        | Ok a, Ok l => Ok (a :: l)
        | Raise e, _ => Raise e
        | _, Raise e => Raise e
        end
      else decode_pdb model rest
  end.
