(* M-3D, part 1: vectors and the polynomial cores of the geometric tests, generic in the
   coefficient type so that the same definitions run over Z (correspondence, exact on a
   coordinate grid) and are reasoned about over R (theorems).  Executable, no proofs. *)
From Coq Require Import ZArith List.
Import ListNotations.

Section Poly.
  Variable T : Type.
  Variable add mul sub : T -> T -> T.
  Variable zero : T.

  Definition vec := (T * T * T)%type.
  Definition vx (v : vec) : T := fst (fst v).
  Definition vy (v : vec) : T := snd (fst v).
  Definition vz (v : vec) : T := snd v.

  Definition vsub (a b : vec) : vec := (sub (vx a) (vx b), sub (vy a) (vy b), sub (vz a) (vz b)).
  Definition vadd (a b : vec) : vec := (add (vx a) (vx b), add (vy a) (vy b), add (vz a) (vz b)).
  Definition vscale (k : T) (a : vec) : vec := (mul k (vx a), mul k (vy a), mul k (vz a)).
  Definition dot (a b : vec) : T := add (add (mul (vx a) (vx b)) (mul (vy a) (vy b))) (mul (vz a) (vz b)).
  Definition cross (a b : vec) : vec :=
    (sub (mul (vy a) (vz b)) (mul (vz a) (vy b)),
     sub (mul (vz a) (vx b)) (mul (vx a) (vz b)),
     sub (mul (vx a) (vy b)) (mul (vy a) (vx b))).
  Definition norm2 (a : vec) : T := dot a a.
  Definition dist2 (a b : vec) : T := norm2 (vsub a b).
  Definition triple (a b c : vec) : T := dot a (cross b c).

  (* ---- torsion cores.  Both implementations hand atan2 a pair (y, x); up to a common positive
     factor these pairs are the following polynomials (times |v2| for y in tertiary.py). *)
  (* tertiary.py: y = |v2| * v1.(v2 x v3), x = (v1 x v2).(v2 x v3) *)
  Definition torsion_v1_y_over_norm_v2 (p1 p2 p3 p4 : vec) : T :=
    let v1 := vsub p2 p1 in let v2 := vsub p3 p2 in let v3 := vsub p4 p3 in
    triple v1 v2 v3.
  Definition torsion_v1_x (p1 p2 p3 p4 : vec) : T :=
    let v1 := vsub p2 p1 in let v2 := vsub p3 p2 in let v3 := vsub p4 p3 in
    dot (cross v1 v2) (cross v2 v3).
  (* tertiary_v2.py: y = ((v1 x v2) x v2).(v2 x v3) / |v2|, x = (v1 x v2).(v2 x v3) *)
  Definition torsion_v2_y_times_norm_v2 (p1 p2 p3 p4 : vec) : T :=
    let v1 := vsub p2 p1 in let v2 := vsub p3 p2 in let v3 := vsub p4 p3 in
    dot (cross (cross v1 v2) v2) (cross v2 v3).
  Definition torsion_v2_x (p1 p2 p3 p4 : vec) : T := torsion_v1_x p1 p2 p3 p4.
  Definition v2_len2 (p1 p2 p3 p4 : vec) : T := norm2 (vsub p3 p2).
  (* degeneracy: squared norms of the two plane normals *)
  Definition normal1_len2 (p1 p2 p3 p4 : vec) : T := norm2 (cross (vsub p2 p1) (vsub p3 p2)).
  Definition normal2_len2 (p1 p2 p3 p4 : vec) : T := norm2 (cross (vsub p3 p2) (vsub p4 p3)).
End Poly.

(* instantiation over Z for the correspondence check *)
Definition vecZ := vec Z.
Definition dotZ := dot Z Z.add Z.mul.
Definition crossZ := cross Z Z.mul Z.sub.
Definition vsubZ := vsub Z Z.sub.
Definition dist2Z := dist2 Z Z.add Z.mul Z.sub.
Definition norm2Z := norm2 Z Z.add Z.mul.
Definition t1yZ := torsion_v1_y_over_norm_v2 Z Z.add Z.mul Z.sub.
Definition t1xZ := torsion_v1_x Z Z.add Z.mul Z.sub.
Definition t2yZ := torsion_v2_y_times_norm_v2 Z Z.add Z.mul Z.sub.
Definition v2l2Z := v2_len2 Z Z.add Z.mul Z.sub.
Definition n1l2Z := normal1_len2 Z Z.add Z.mul Z.sub.
Definition n2l2Z := normal2_len2 Z Z.add Z.mul Z.sub.
