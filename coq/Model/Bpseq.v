(* M-2D, part 1: BPSEQ entries, stems, regions, dot-bracket encoder and decoder.
   Executable definitions only (no proofs), mirroring src/rnapolis/common.py. *)
From Coq Require Import String Ascii ZArith List Bool Arith.
From RV Require Import Base.Val Gen.Common.
Import ListNotations.

(* ---------------------------------------------------------------- entries *)

Record entry := { idx : nat; nt : ascii; pair : nat }.   (* pair = 0: unpaired *)
Definition bpseq := list entry.

(* pair of the entry with (1-based) index i; 0 when there is none *)
Definition pair_at (b : bpseq) (i : nat) : nat :=
  match i with
  | 0 => 0
  | S i' => match nth_error b i' with Some e => pair e | None => 0 end
  end.

(* indices 1..N in order, partners inside 1..N, no self pair, symmetric *)
Definition entry_ok (b : bpseq) (e : entry) : bool :=
  (pair e =? 0) ||
  ((pair e <=? length b) && negb (pair e =? idx e) && (pair_at b (pair e) =? idx e)).
Definition valid (b : bpseq) : bool :=
  forallb (fun p => idx (snd p) =? S (fst p)) (combine (seq 0 (length b)) b) &&
  forallb (entry_ok b) b.

Definition sequence (b : bpseq) : list ascii := map nt b.

(* BpSeq.paired(only5to3=True) *)
Definition paired53 (b : bpseq) : list entry :=
  filter (fun e => idx e <? pair e) (filter (fun e => negb (pair e =? 0)) b).

(* BpSeq.__post_init__ : the dict self.pairs as the list of (i, j) in insertion-independent
   form: every (idx, pair) with pair <> 0, in entry order *)
Definition pairs_dict (b : bpseq) : list (nat * nat) :=
  map (fun e => (idx e, pair e)) (filter (fun e => negb (pair e =? 0)) b).

(* ---------------------------------------------------------------- stems and regions *)

Definition continues (prev e : entry) : bool :=
  stem_continue (Z.of_nat (idx e)) (Z.of_nat (pair e)) (Z.of_nat (idx prev)) (Z.of_nat (pair prev)).

(* maximal runs of consecutive entries each of which `continues` its predecessor *)
Fixpoint runs (es : list entry) : list (list entry) :=
  match es with
  | [] => []
  | e :: es' =>
      match runs es' with
      | (f :: run) :: rest => if continues e f then (e :: f :: run) :: rest else [e] :: (f :: run) :: rest
      | [] :: rest => [e] :: rest      (* unreachable: runs are never empty *)
      | [] => [[e]]
      end
  end.

Definition stems (b : bpseq) : list (list entry) := runs (paired53 b).

Definition region := (nat * nat * nat)%type.   (* first 5' index, its partner, length *)
Definition region_of (st : list entry) : region :=
  match st with e :: _ => (idx e, pair e, length st) | [] => (0, 0, 0) end.
Definition regions (b : bpseq) : list region := map region_of (stems b).

(* ---------------------------------------------------------------- encoder: __make_dot_bracket *)

Fixpoint set_nth {A} (l : list A) (i : nat) (x : A) : list A :=
  match l, i with
  | [], _ => []
  | _ :: t, 0 => x :: t
  | h :: t, S i' => h :: set_nth t i' x
  end.

(* while n > 0: structure[j-1] = o; structure[k-1] = c; j += 1; k -= 1; n -= 1 *)
Fixpoint fill (s : list ascii) (o c : ascii) (j k n : nat) : list ascii :=
  match n with
  | 0 => s
  | S n' => fill (set_nth (set_nth s (j - 1) o) (k - 1) c) o c (S j) (k - 1) n'
  end.

Definition dot : ascii := "."%char.

(* orders[i] beyond the bracket table raises IndexError in Python *)
Fixpoint make_structure (s : list ascii) (rs : list region) (ord : list nat) : result (list ascii) :=
  match rs, ord with
  | [], _ => Ok s
  | (j, k, n) :: rs', o :: ord' =>
      match nth_error brackets o with
      | Some (bo, bc) => make_structure (fill s bo bc j k n) rs' ord'
      | None => Raise IndexError
      end
  | _ :: _, [] => Raise IndexError
  end.

Definition make_db (b : bpseq) (rs : list region) (ord : list nat) : result (list ascii) :=
  make_structure (repeat dot (length b)) rs ord.

(* ---------------------------------------------------------------- decoder: DotBracket.__post_init__ *)

Fixpoint index_of (c : ascii) (l : list ascii) : option nat :=
  match l with
  | [] => None
  | x :: t => if Ascii.eqb c x then Some 0 else option_map S (index_of c t)
  end.

Definition upd (st : nat -> list nat) (t : nat) (v : list nat) : nat -> list nat :=
  fun u => if u =? t then v else st u.

(* `c in opening` is tested first, then `c in closing`; matches[c] is the opening bracket at
   the same position of the zip *)
Fixpoint parse_aux (s : list ascii) (pos : nat) (st : nat -> list nat) (acc : list (nat * nat))
  : result (list (nat * nat) * (nat -> list nat)) :=
  match s with
  | [] => Ok (rev acc, st)
  | c :: s' =>
      match index_of c opening with
      | Some t => parse_aux s' (S pos) (upd st t (pos :: st t)) acc
      | None =>
          match index_of c closing with
          | Some t =>
              match st t with
              | [] => Raise IndexError
              | o :: r => parse_aux s' (S pos) (upd st t r) ((o, pos) :: acc)
              end
          | None => parse_aux s' (S pos) st acc
          end
      end
  end.

Definition parse_db (s : list ascii) : result (list (nat * nat)) :=
  match parse_aux s 0 (fun _ => []) [] with
  | Ok (ps, _) => Ok ps
  | Raise e => Raise e
  end.

(* balanced per bracket type: every closer finds an opener and no opener is left over *)
Definition balanced (s : list ascii) : bool :=
  match parse_aux s 0 (fun _ => []) [] with
  | Ok (_, st) => forallb (fun t => match st t with [] => true | _ => false end) (seq 0 (length opening))
  | Raise _ => false
  end.

(* BpSeq.from_dotbracket: later assignments overwrite earlier ones, as in Python *)
Definition set_pair (b : bpseq) (i p : nat) : bpseq :=
  match nth_error b i with
  | Some e => set_nth b i {| idx := idx e; nt := nt e; pair := p |}
  | None => b
  end.
Definition from_db (sequence : list ascii) (pairs : list (nat * nat)) : bpseq :=
  fold_left (fun b ij => set_pair (set_pair b (fst ij) (S (snd ij))) (snd ij) (S (fst ij)))
            pairs
            (map (fun p => {| idx := S (fst p); nt := snd p; pair := 0 |})
                 (combine (seq 0 (length sequence)) sequence)).

(* the 0-based pairs (opener, closer) of a structure, listed by closing position: what a
   lossless dot-bracket must decode to.  Every pair of a symmetric structure appears exactly
   once, at its 3' member. *)
Definition is_closer (e : entry) : bool := negb (pair e =? 0) && (pair e <? idx e).
Definition pairs0 (b : bpseq) : list (nat * nat) :=
  map (fun e => (pair e - 1, idx e - 1)) (filter is_closer b).

(* ---------------------------------------------------------------- FCFS *)

Definition conflicts_with (cf : nat -> nat -> nat -> nat -> bool) (r q : region) : bool :=
  match r, q with (k, l, _), (m, n, _) => cf k l m n end.

Definition first_free (used : list nat) (levels : nat) : option nat :=
  find (fun o => negb (existsb (Nat.eqb o) used)) (seq 0 levels).

(* done: earlier regions with their orders, most recent first *)
Fixpoint fcfs_go (done : list (region * nat)) (rest : list region) : result (list nat) :=
  match rest with
  | [] => Ok (rev (map snd done))
  | r :: rest' =>
      let used := map snd (filter (fun q => conflicts_with conflict_fcfs r (fst q)) done) in
      match first_free used fcfs_levels with
      | Some o => fcfs_go ((r, o) :: done) rest'
      | None => Raise StopIteration
      end
  end.

(* orders[0] = 0 without a search; later regions take the first level not used by an
   earlier conflicting region *)
Definition fcfs_orders (rs : list region) : result (list nat) :=
  match rs with
  | [] => Ok []
  | r :: rest => fcfs_go [(r, 0)] rest
  end.

Definition bind {A B} (r : result A) (f : A -> result B) : result B :=
  match r with Ok a => f a | Raise e => Raise e end.

Definition fcfs (b : bpseq) : result (list ascii) :=
  bind (fcfs_orders (regions b)) (make_db b (regions b)).
