(* M-3D: mapping a list of base pairs onto a structure (tertiary.Mapping2D3D): lifting with reverse duplication,
   canonical filter, conflict resolution, BPSEQ numbering with gap placeholders, strands, extended rows.
   Residue flags that are not C06's subject (is_nucleotide, is_connected) are inputs.  Executable, no proofs. *)
From Coq Require Import String Ascii ZArith List Bool Arith.
From RV Require Import Base.Val Base.PyStr Gen.Common Model.Bpseq Model.AllDb Model.Annot.
Import ListNotations.

Record mres := {
  m_chain : str; m_number : Z; m_icode : option str; m_letter : str;
  m_nucleotide : bool;
  m_connected_prev : bool }.     (* previous nucleotide .is_connected(this one); meaningful for nucleotides only *)

(* an input pair: residue indices (None = the entry names a residue absent from the structure), LW name, Saenger name *)
Record ipair := { p_i : option nat; p_j : option nat; p_lw : str; p_sa : option str }.
Record lpair := { l_i : nat; l_j : nat; l_lw : str; l_sa : option str }.

Definition ostr_eqb' (a b : option str) : bool :=
  match a, b with Some x, Some y => str_eqb x y | None, None => true | _, _ => false end.
Definition lpair_eqb (a b : lpair) : bool :=
  (l_i a =? l_i b) && (l_j a =? l_j b) && str_eqb (l_lw a) (l_lw b) && ostr_eqb' (l_sa a) (l_sa b).

Definition lw_reverse (lw : str) : str := map (fun k => nth k lw " "%char) lw_reverse_perm.
Definition reverse_pair (p : lpair) : lpair := {| l_i := l_j p; l_j := l_i p; l_lw := lw_reverse (l_lw p); l_sa := l_sa p |}.

(* Mapping2D3D.base_pairs *)
Definition lift (ps : list ipair) : list lpair :=
  fold_left (fun acc p =>
               match p_i p, p_j p with
               | Some i, Some j =>
                   let bp := {| l_i := i; l_j := j; l_lw := p_lw p; l_sa := p_sa p |} in
                   let acc1 := if existsb (lpair_eqb bp) acc then acc else acc ++ [bp] in
                   if existsb (lpair_eqb (reverse_pair bp)) acc1 then acc1 else acc1 ++ [reverse_pair bp]
               | _, _ => acc
               end) ps [].

(* Residue.__lt__ : (chain, number, icode or " ") *)
Definition mres_ltb (a b : mres) : bool :=
  if str_ltb (m_chain a) (m_chain b) then true else if str_ltb (m_chain b) (m_chain a) then false
  else if (m_number a <? m_number b)%Z then true else if (m_number b <? m_number a)%Z then false
  else str_ltb (match m_icode a with Some c => c | None => [space] end) (match m_icode b with Some c => c | None => [space] end).

Definition upper_letter (r : mres) : str := upper (m_letter r).
Definition sorted2 (a b : str) : str := if str_ltb b a then b ++ a else a ++ b.
Definition in_strs (x : str) (l : list string) : bool := existsb (fun s => str_eqb (list_ascii_of_string s) x) l.

Definition is_canonical (rs : list mres) (p : lpair) : bool :=
  match l_sa p with
  | Some s => in_strs s saenger_canonical
  | None =>
      match nth_error rs (l_i p), nth_error rs (l_j p) with
      | Some a, Some b => str_eqb (l_lw p) (list_ascii_of_string "cWW") &&
                          in_strs (sorted2 (upper_letter a) (upper_letter b)) ["AU"; "AT"; "CG"; "GU"]%string
      | _, _ => false
      end
  end.

Definition lt_idx (rs : list mres) (i j : nat) : bool :=
  match nth_error rs i, nth_error rs j with Some a, Some b => mres_ltb a b | _, _ => false end.

(* pair_scoring_function: (0 | 1, nt1, nt2) *)
Definition pair_score (rs : list mres) (p : lpair) : nat :=
  match l_sa p with
  | Some s => if in_strs s ["XIX"; "XX"]%string then 0 else 1
  | None =>
      match nth_error rs (l_i p), nth_error rs (l_j p) with
      | Some a, Some b => if in_strs (sorted2 (upper_letter a) (upper_letter b)) ["AU"; "AT"; "CG"]%string then 0 else 1
      | _, _ => 1
      end
  end.
Definition worse (rs : list mres) (a b : lpair) : bool :=     (* key a < key b *)
  if pair_score rs a <? pair_score rs b then true else if pair_score rs b <? pair_score rs a then false
  else if lt_idx rs (l_i a) (l_i b) then true else if lt_idx rs (l_i b) (l_i a) then false
  else lt_idx rs (l_j a) (l_j b).

Fixpoint remove_first (p : lpair) (l : list lpair) : list lpair :=
  match l with [] => [] | q :: t => if lpair_eqb p q then t else q :: remove_first p t end.

(* residues in order of first appearance in the canonical list (nt1 then nt2 of each pair) *)
Definition touched (l : list lpair) : list nat :=
  fold_left (fun acc p => let a1 := if existsb (Nat.eqb (l_i p)) acc then acc else acc ++ [l_i p] in
                          if existsb (Nat.eqb (l_j p)) a1 then a1 else a1 ++ [l_j p]) l [].
Definition dedup_pairs (l : list lpair) : list lpair :=
  fold_left (fun acc p => if existsb (lpair_eqb p) acc then acc else acc ++ [p]) l [].

Fixpoint resolve (rs : list mres) (fuel : nat) (canonical : list lpair) : result (list lpair) :=
  match fuel with
  | 0 => match find (fun r => 1 <? length (dedup_pairs (filter (fun p => (l_i p =? r) || (l_j p =? r)) canonical))) (touched canonical) with
         | Some _ => Raise OutOfFuel | None => Ok canonical end
  | Datatypes.S f =>
      match find (fun r => 1 <? length (dedup_pairs (filter (fun p => (l_i p =? r) || (l_j p =? r)) canonical))) (touched canonical) with
      | None => Ok canonical
      | Some r =>
          let ps := dedup_pairs (filter (fun p => (l_i p =? r) || (l_j p =? r)) canonical) in
          let sorted := stable_sort (worse rs) ps in
          match rev sorted with
          | worst :: _ => resolve rs f (remove_first worst canonical)
          | [] => Ok canonical
          end
      end
  end.

Definition canonical_pairs (rs : list mres) (ps : list ipair) : list lpair :=
  filter (fun p => is_canonical rs p && lt_idx rs (l_i p) (l_j p)) (lift ps).

(* numbering: BPSEQ index of every nucleotide (with `?` placeholders before it when gaps are searched) *)
Definition nucleotides (rs : list mres) : list (nat * mres) :=
  filter (fun ir => m_nucleotide (snd ir)) (combine (seq 0 (length rs)) rs).

Fixpoint number_go (find_gaps : bool) (prev : option mres) (i : nat) (l : list (nat * mres))
  : list (nat * str * option nat) :=        (* (bpseq index, letter, residue index or None for a placeholder) *)
  match l with
  | [] => []
  | (ri, r) :: rest =>
      let gap := match prev with
                 | Some p => if find_gaps && negb (m_connected_prev r) && str_eqb (m_chain p) (m_chain r)
                             then Z.to_nat (m_number r - m_number p - 1) else 0
                 | None => 0 end in
      map (fun k => (i + k, ["?"%char], None)) (seq 0 gap) ++
      (i + gap, m_letter r, Some ri) :: number_go find_gaps (Some r) (i + gap + 1) rest
  end.
Definition numbering (find_gaps : bool) (rs : list mres) := number_go find_gaps None 1 (nucleotides rs).

Definition index_of_res' (num : list (nat * str * option nat)) (ri : nat) : option nat :=
  match find (fun x => match snd x with Some r => r =? ri | None => false end) num with
  | Some x => Some (fst (fst x)) | None => None end.

(* __generate_bpseq: later pairs overwrite earlier ones *)
Definition generate_bpseq (find_gaps : bool) (rs : list mres) (pairs : list lpair) : list (nat * str * nat) :=
  let num := numbering find_gaps rs in
  let base := map (fun x => (fst (fst x), snd (fst x), 0)) num in
  fold_left (fun acc p =>
               match index_of_res' num (l_i p), index_of_res' num (l_j p) with
               | Some j, Some k =>
                   map (fun e => match e with (ix, c, pr) => if ix =? j then (ix, c, k) else if ix =? k then (ix, c, j) else e end) acc
               | _, _ => acc
               end) pairs base.

Definition mapping_bpseq (find_gaps : bool) (rs : list mres) (ps : list ipair) : result (list (nat * str * nat)) :=
  let can := canonical_pairs rs ps in
  match resolve rs (length can) can with
  | Ok l => Ok (generate_bpseq find_gaps rs l)
  | Raise e => Raise e
  end.

(* strands_sequences: (chain, sequence) per run of nucleotides of one chain *)
Fixpoint strands_go (find_gaps : bool) (prev : option mres) (cur : option (str * str)) (l : list (nat * mres)) : list (str * str) :=
  match l with
  | [] => match cur with Some c => [c] | None => [] end
  | (_, r) :: rest =>
      match prev, cur with
      | Some p, Some (ch, sq) =>
          if str_eqb (m_chain p) (m_chain r) then
            let gap := if find_gaps && negb (m_connected_prev r) then Z.to_nat (m_number r - m_number p - 1) else 0 in
            strands_go find_gaps (Some r) (Some (ch, sq ++ repeat "?"%char gap ++ m_letter r)) rest
          else (ch, sq) :: strands_go find_gaps (Some r) (Some (m_chain r, m_letter r)) rest
      | _, _ => strands_go find_gaps (Some r) (Some (m_chain r, m_letter r)) rest
      end
  end.
Definition strands (find_gaps : bool) (rs : list mres) : list (str * str) := strands_go find_gaps None None (nucleotides rs).

(* extended rows: per LW class (in enum order) first-fit rows in which each nucleotide has at most one partner;
   a pair listed twice is written once *)
(* __generate_dot_bracket_per_strand: the dot-bracket of the whole BPSEQ cut into consecutive pieces as long as the strands *)
Fixpoint split_lengths {A} (l : list A) (lens : list nat) : list (list A) :=
  match lens with [] => [] | n :: t => firstn n l :: split_lengths (skipn n l) t end.
Definition strand_texts (find_gaps : bool) (rs : list mres) (db : str) : list (str * str * str) :=
  let ss := strands find_gaps rs in
  map (fun x => (fst (fst x), snd (fst x), snd x)) (combine ss (split_lengths db (map (fun s => length (snd s)) ss))).

Definition fits_row (p : lpair) (row : list lpair) : bool :=
  negb (existsb (fun q => (l_i q =? l_i p) || (l_j q =? l_i p) || (l_i q =? l_j p) || (l_j q =? l_j p)) row).
Fixpoint place (p : lpair) (rws : list (list lpair)) : list (list lpair) :=
  match rws with
  | [] => [[p]]
  | row :: t => if fits_row p row then (row ++ [p]) :: t else row :: place p t
  end.
Definition rows_step (acc : list (list lpair) * list (nat * nat)) (p : lpair) : list (list lpair) * list (nat * nat) :=
  if existsb (fun s => (fst s =? l_i p) && (snd s =? l_j p)) (snd acc) then acc
  else (place p (fst acc), (l_i p, l_j p) :: snd acc).
Definition class_pairs (rs : list mres) (lifted : list lpair) (lw : str) : list lpair :=
  filter (fun p => str_eqb (l_lw p) lw && lt_idx rs (l_i p) (l_j p)) lifted.
Definition rows_of_class (rs : list mres) (lifted : list lpair) (lw : str) : list (list lpair) :=
  fst (fold_left rows_step (class_pairs rs lifted lw) ([], [])).

Definition extended_rows (find_gaps : bool) (rs : list mres) (ps : list ipair) : list (str * list (nat * str * nat)) :=
  let lifted := lift ps in
  flat_map (fun m => let lw := list_ascii_of_string (snd m) in
                     map (fun row => (lw, generate_bpseq find_gaps rs row)) (rows_of_class rs lifted lw)) lw_members.
