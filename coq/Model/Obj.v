(* M-2D, part 5: BpSeq objects as mutable things — a heap of Entry cells shared by reference,
   per-object caches, and the public operations as a state machine.  Also the pure reference
   interpreter ("a fresh copy of the original would answer ...").  Executable, no proofs. *)
From Coq Require Import String Ascii ZArith List Bool Arith DecimalString.
From RV Require Import Base.Val Gen.Common Model.Bpseq Model.AllDb Model.Elements.
Import ListNotations.

Inductive op := OStr | OPairs | OSeq | ODotBracket | OFcfs | OAllDb | OElements | OWithoutIsolated | OWithoutPk.

Inductive answer :=
| AText (s : list ascii)
| APairs (l : list (nat * nat))
| AResult (r : result (list ascii))
| AObject (b : bpseq)           (* a derivation: the content of the returned object *)
| AUnobserved.

Definition dec (n : nat) : list ascii := list_ascii_of_string (NilZero.string_of_uint (Nat.to_uint n)).
Definition nl : ascii := ascii_of_nat 10.
Definition sp : ascii := " "%char.
Definition render_entry (e : entry) : list ascii := dec (idx e) ++ [sp] ++ [nt e] ++ [sp] ++ dec (pair e).
Fixpoint join_lines (l : list (list ascii)) : list ascii :=
  match l with [] => [] | [x] => x | x :: t => x ++ [nl] ++ join_lines t end.
Definition render (b : bpseq) : list ascii := join_lines (map render_entry b).

(* sorted (i, j) items of the dict self.pairs *)
Definition pairs_items (b : bpseq) : list (nat * nat) := pairs_dict b.

Section Machine.
  (* oracle: the dot-bracket a fresh object with this content gets from the MILP path (C02/C13) *)
  Variable dbo : bpseq -> list ascii.

  Definition iso_positions (b : bpseq) : list nat :=
    flat_map (fun st => match st with [e] => [idx e - 1; pair e - 1] | _ => [] end) (stems b).

  (* ---------------------------------------------------------------- pure reference *)
  Definition pure_step (objs : list bpseq) (k : nat) (o : op) : list bpseq * answer :=
    match nth_error objs k with
    | None => (objs, AUnobserved)
    | Some b =>
        match o with
        | OStr => (objs, AText (render b))
        | OPairs => (objs, APairs (pairs_items b))
        | OSeq => (objs, AText (sequence b))
        | OFcfs => (objs, AResult (fcfs b))
        | ODotBracket | OAllDb | OElements => (objs, AUnobserved)
        | OWithoutIsolated =>
            let b' := without_isolated b in (objs ++ [b'], AObject b')
        | OWithoutPk =>
            match without_pseudoknots_of b (dbo b) with
            | Ok b' => (objs ++ [b'], AObject b')
            | Raise _ => (objs, AUnobserved)
            end
        end
    end.

  Fixpoint pure_run (objs : list bpseq) (h : list (nat * op)) : list answer :=
    match h with
    | [] => []
    | (k, o) :: h' => let '(objs', a) := pure_step objs (k mod length objs) o in a :: pure_run objs' h'
    end.

  (* ---------------------------------------------------------------- the machine *)
  Record object := {
    cells : list nat;                         (* ids of the Entry objects in self.entries *)
    snap : list (nat * nat);                  (* self.pairs, computed in __post_init__ *)
    c_db : option (list ascii);               (* cached dot_bracket *)
    c_fcfs : option (result (list ascii)) }.  (* cached fcfs *)
  Record state := { heap : list entry; objs : list object }.

  Definition dummy : entry := {| idx := 0; nt := "?"%char; pair := 0 |}.
  Definition view (h : list entry) (o : object) : bpseq := map (fun c => nth c h dummy) (cells o).

  Definition new_object (h : list entry) (b : bpseq) : list entry * object :=
    (h ++ b, {| cells := seq (length h) (length b); snap := pairs_items b; c_db := None; c_fcfs := None |}).

  Definition set_obj (l : list object) (k : nat) (o : object) : list object := set_nth l k o.

  Definition force_db (h : list entry) (o : object) : object * list ascii :=
    match c_db o with
    | Some s => (o, s)
    | None => let s := dbo (view h o) in
              ({| cells := cells o; snap := snap o; c_db := Some s; c_fcfs := c_fcfs o |}, s)
    end.

  Definition step (s : state) (k : nat) (o : op) : state * answer :=
    match nth_error (objs s) k with
    | None => (s, AUnobserved)
    | Some ob =>
        let b := view (heap s) ob in
        match o with
        | OStr => (s, AText (render b))
        | OPairs => (s, APairs (snap ob))
        | OSeq => (s, AText (sequence b))
        | OFcfs =>
            match c_fcfs ob with
            | Some r => (s, AResult r)
            | None => let r := fcfs b in
                      ({| heap := heap s;
                          objs := set_obj (objs s) k {| cells := cells ob; snap := snap ob; c_db := c_db ob; c_fcfs := Some r |} |},
                       AResult r)
            end
        | ODotBracket | OAllDb | OElements =>
            let '(ob', _) := force_db (heap s) ob in
            ({| heap := heap s; objs := set_obj (objs s) k ob' |}, AUnobserved)
        | OWithoutIsolated =>
            let '(ob', _) := force_db (heap s) ob in          (* self.elements needs the dot-bracket *)
            let objs1 := set_obj (objs s) k ob' in
            match iso_positions b with
            | [] => ({| heap := heap s; objs := objs1 ++ [ob'] |}, AObject b)     (* returns self *)
            | iso =>
                if isolated_copy_fresh then
                  let b' := without_isolated b in
                  let '(h', nob) := new_object (heap s) b' in
                  ({| heap := h'; objs := objs1 ++ [nob] |}, AObject b')
                else
                  (* shallow copy: the new list holds the same Entry objects, which are edited in place *)
                  let h' := fold_left (fun h p => match nth_error (cells ob) p with
                                                  | Some c => set_nth h c {| idx := idx (nth c h dummy); nt := nt (nth c h dummy); pair := 0 |}
                                                  | None => h end) iso (heap s) in
                  let nob := {| cells := cells ob; snap := pairs_items (view h' ob); c_db := None; c_fcfs := None |} in
                  ({| heap := h'; objs := objs1 ++ [nob] |}, AObject (view h' ob))
            end
        | OWithoutPk =>
            let '(ob', db) := force_db (heap s) ob in
            let objs1 := set_obj (objs s) k ob' in
            match without_pseudoknots_of b db with
            | Ok b' => let '(h', nob) := new_object (heap s) b' in
                       ({| heap := h'; objs := objs1 ++ [nob] |}, AObject b')
            | Raise _ => ({| heap := heap s; objs := objs1 |}, AUnobserved)
            end
        end
    end.

  Fixpoint run (s : state) (h : list (nat * op)) : list answer :=
    match h with
    | [] => []
    | (k, o) :: h' => let '(s', a) := step s (k mod length (objs s)) o in a :: run s' h'
    end.

  Definition init (b : bpseq) : state :=
    let '(h, ob) := new_object [] b in {| heap := h; objs := [ob] |}.
End Machine.
