(* M-3D: base pairs, base-phosphate / base-ribose contacts and stackings (annotator.py), exact on the
   2^-20 A coordinate grid.  Every place where the code iterates scipy's set of neighbour pairs takes the
   observed order as an argument (an oracle, never an axiom).  Executable, no proofs. *)
From Coq Require Import String Ascii ZArith QArith List Bool Arith.
From RV Require Import Base.Val Base.PyStr Gen.Common Gen.Annot Model.Geom Model.AllDb.
Import ListNotations.
Local Close Scope Q_scope.

Definition GRIDZ : Z := 1048576.

Record res3 := {
  r_model : Z; r_chain : str; r_number : Z; r_icode : option str;
  r_letter : str;                         (* one_letter_name *)
  r_atoms : list (str * vecZ) }.

Definition S (s : string) : str := list_ascii_of_string s.

Definition find_atom (r : res3) (name : str) : option vecZ :=
  match find (fun a => str_eqb (fst a) name) (r_atoms r) with Some a => Some (snd a) | None => None end.

Definition table_get {A} (t : list (string * A)) (k : str) : option A :=
  match find (fun kv => str_eqb (S (fst kv)) k) t with Some kv => Some (snd kv) | None => None end.
Definition names_of (t : list (string * list string)) (k : str) : list str :=
  match table_get t k with Some l => map S l | None => [] end.

(* `one_letter_name in "AG"`: a substring test *)
Definition is_purine_like (l : str) : bool :=
  str_eqb l [] || str_eqb l (S "A") || str_eqb l (S "G") || str_eqb l (S "AG").

(* un-normalised base normal: only its direction matters for every test below *)
Definition base_normal (r : res3) : option vecZ :=
  if is_purine_like (r_letter r) then
    match find_atom r (S "N9"), find_atom r (S "N7"), find_atom r (S "N3") with
    | Some n9, Some n7, Some n3 => Some (crossZ (vsubZ n7 n9) (vsubZ n3 n9))
    | _, _, _ => None end
  else
    match find_atom r (S "N1"), find_atom r (S "C4"), find_atom r (S "O2") with
    | Some n1, Some c4, Some o2 => Some (crossZ (vsubZ c4 n1) (vsubZ o2 n1))
    | _, _, _ => None end.

(* three-valued decisions: inside the 1e-6 band of a threshold the property leaves the outcome open *)
Inductive tri := Yes | No | Near.
Definition tri_and (a b : tri) : tri :=
  match a, b with No, _ => No | _, No => No | Yes, Yes => Yes | _, _ => Near end.

(* lo < angle(n, v) < 180 - lo  <=>  cos^2 < cos^2 lo ; degenerate vectors give nan in the code: No *)
Definition cos2_below (lo hi : Q) (n v : vecZ) : tri :=
  let nn := norm2Z n in let vv := norm2Z v in
  if (nn =? 0)%Z || (vv =? 0)%Z then No
  else
    let d := dotZ n v in
    let lhs := inject_Z (d * d) in
    let s := inject_Z (nn * vv) in
    if Qle_bool (hi * s) lhs then No
    else if Qle_bool (lo * s) lhs then Near
    else Yes.

Definition in_window (n v : vecZ) : tri := cos2_below cos2_window_lo cos2_window_hi n v.

(* -90 < torsion < 90  <=>  the cosine-like argument of atan2 is positive (degenerate: torsion 0.0, cis) *)
Definition torsion_is_cis (p1 p2 p3 p4 : vecZ) : tri :=
  if (n1l2Z p1 p2 p3 p4 =? 0)%Z || (n2l2Z p1 p2 p3 p4 =? 0)%Z then Yes
  else let x := t1xZ p1 p2 p3 p4 in
       if (0 <? x)%Z then Yes else if (x <? 0)%Z then No else Near.

Definition glyco_n (r : res3) : option vecZ :=
  if is_purine_like (r_letter r) then find_atom r (S "N9") else find_atom r (S "N1").

Definition detect_cis_trans (ri rj : res3) : option tri :=
  match find_atom ri (S "C1'"), find_atom rj (S "C1'"), glyco_n ri, glyco_n rj with
  | Some c1i, Some c1j, Some ni, Some nj => Some (torsion_is_cis c1i ni nj c1j)
  | _, _, _, _ => None
  end.

(* detect_bph_br_classification: None = no class; Some (k, decided) *)
Definition bph_class (donor_res : res3) (donor_name : str) (donor acceptor : vecZ) : option (nat * tri) :=
  match find (fun kv => str_eqb (S (fst (fst kv))) (r_letter donor_res) && str_eqb (S (snd (fst kv))) donor_name) bph_ladder with
  | None => None
  | Some (_, inl k) => Some (k, Yes)
  | Some (_, inr ((a, b), (kc, kt))) =>
      match find_atom donor_res (S a), find_atom donor_res (S b) with
      | Some pa, Some pb =>
          match torsion_is_cis pa pb donor acceptor with
          | Yes => Some (kc, Yes) | No => Some (kt, Yes) | Near => Some (kc, Near) end
      | _, _ => None
      end
  end.

(* ---------------------------------------------------------------- the candidate atoms fed to the KD-tree *)
Record cand := { c_res : nat; c_name : str; c_pos : vecZ; c_acceptor : bool }.

Definition candidates_of (i : nat) (r : res3) : list cand :=
  let acceptors := names_of base_acceptors (r_letter r) ++ map S ribose_acceptors ++ map S phosphate_acceptors in
  let donors := names_of base_donors (r_letter r) in
  flat_map (fun nm => match find_atom r nm with
                      | Some p => [{| c_res := i; c_name := nm; c_pos := p; c_acceptor := existsb (str_eqb nm) acceptors |}]
                      | None => [] end) (acceptors ++ donors).
Definition candidates (rs : list res3) : list cand :=
  flat_map (fun ir => candidates_of (fst ir) (snd ir)) (combine (seq 0 (length rs)) rs).

Definition within2 (thr : Q) (a b : vecZ) : bool :=
  Qle_bool (inject_Z (dist2Z a b)) ((thr * inject_Z GRIDZ) * (thr * inject_Z GRIDZ)).

(* the true neighbour set: index pairs i < j within the threshold *)
Definition neighbour_pairs (thr : Q) (pts : list vecZ) : list (nat * nat) :=
  flat_map (fun ia => flat_map (fun jb => if (fst ia <? fst jb) && within2 thr (snd ia) (snd jb) then [(fst ia, fst jb)] else [])
                               (combine (seq 0 (length pts)) pts)) (combine (seq 0 (length pts)) pts).

(* ---------------------------------------------------------------- residue order *)
Definition icode_or_space (r : res3) : str := match r_icode r with Some c => c | None => [space] end.
Definition res_ltb (a b : res3) : bool :=
  if (r_model a <? r_model b)%Z then true else if (r_model b <? r_model a)%Z then false
  else if str_ltb (r_chain a) (r_chain b) then true else if str_ltb (r_chain b) (r_chain a) then false
  else if (r_number a <? r_number b)%Z then true else if (r_number b <? r_number a)%Z then false
  else str_ltb (icode_or_space a) (icode_or_space b).

(* ---------------------------------------------------------------- find_pairs *)
Record hbond := { h_i : nat; h_j : nat; h_ni : str; h_nj : str }.      (* residue indices and atom names *)
Record pstate := {
  used : list (nat * str);                       (* used_atoms, as (residue, atom name) *)
  hbonds : list hbond;
  bphs : list (nat * nat * nat);                 (* donor residue, acceptor residue, class *)
  brs : list (nat * nat * nat);
  near : bool }.                                 (* some decision fell inside the undecided band *)

Definition in_names (l : list string) (n : str) : bool := existsb (fun x => str_eqb (S x) n) l.
Definition is_used (u : list (nat * str)) (c : cand) : bool :=
  existsb (fun x => (fst x =? c_res c) && str_eqb (snd x) (c_name c)) u.

Definition step_pair (rs : list res3) (cs : list cand) (st : pstate) (ij : nat * nat) : pstate :=
  match nth_error cs (fst ij), nth_error cs (snd ij) with
  | Some ci, Some cj =>
      if Bool.eqb (c_acceptor ci) (c_acceptor cj) then st
      else if c_res ci =? c_res cj then st
      else
        match nth_error rs (c_res ci), nth_error rs (c_res cj) with
        | Some ri, Some rj =>
            let '(dres, dnm, dpos, ares, apos) :=
              if c_acceptor ci then (c_res cj, c_name cj, c_pos cj, c_res ci, c_pos ci)
              else (c_res ci, c_name ci, c_pos ci, c_res cj, c_pos cj) in
            let donor_res := if c_acceptor ci then rj else ri in
            let backbone (names : list string) (add : pstate -> nat -> pstate) : option pstate :=
              if (in_names names (c_name ci) || in_names names (c_name cj)) && negb (is_used (used st) ci) && negb (is_used (used st) cj) then
                Some (match bph_class donor_res dnm dpos apos with
                      | Some (k, d) =>
                          let st' := add st k in
                          {| used := (c_res ci, c_name ci) :: (c_res cj, c_name cj) :: used st'; hbonds := hbonds st'; bphs := bphs st'; brs := brs st';
                             near := near st' || match d with Near => true | _ => false end |}
                      | None => st end)
              else None in
            match backbone phosphate_acceptors
                    (fun s k => {| used := used s; hbonds := hbonds s; bphs := bphs s ++ [(dres, ares, k)]; brs := brs s; near := near s |}) with
            | Some st' => st'
            | None =>
                match backbone ribose_acceptors
                        (fun s k => {| used := used s; hbonds := hbonds s; bphs := bphs s; brs := brs s ++ [(dres, ares, k)]; near := near s |}) with
                | Some st' => st'
                | None =>
                    match base_normal ri, base_normal rj with
                    | Some ni, Some nj =>
                        let v := vsubZ (c_pos ci) (c_pos cj) in
                        match tri_and (in_window ni v) (in_window nj v) with
                        | Yes =>
                            let same (h : hbond) :=
                              ((h_i h =? c_res ci) && (h_j h =? c_res cj) && str_eqb (h_ni h) (c_name ci) && str_eqb (h_nj h) (c_name cj)) ||
                              ((h_i h =? c_res cj) && (h_j h =? c_res ci) && str_eqb (h_ni h) (c_name cj) && str_eqb (h_nj h) (c_name ci)) in
                            if hbond_dedup && existsb same (hbonds st) then st
                            else {| used := used st; hbonds := hbonds st ++ [{| h_i := c_res ci; h_j := c_res cj; h_ni := c_name ci; h_nj := c_name cj |}];
                                    bphs := bphs st; brs := brs st; near := near st |}
                        | No => st
                        | Near => {| used := used st; hbonds := hbonds st; bphs := bphs st; brs := brs st; near := true |}
                        end
                    | _, _ => st
                    end
                end
            end
        | _, _ => st
        end
  | _, _ => st
  end.

(* labels: (residue lo, residue hi, cis?, edge lo, edge hi) *)
Definition label := (nat * nat * bool * ascii * ascii)%type.
Definition label_eqb (a b : label) : bool :=
  match a, b with (i1, j1, c1, e1, f1), (i2, j2, c2, e2, f2) =>
    (i1 =? i2) && (j1 =? j2) && Bool.eqb c1 c2 && Ascii.eqb e1 e2 && Ascii.eqb f1 f2 end.

Definition edges_of (r : res3) (atom : str) : option str :=
  match table_get base_edges (r_letter r) with
  | Some t => match find (fun kv => str_eqb (S (fst kv)) atom) t with Some kv => Some (S (snd kv)) | None => None end
  | None => None
  end.

Definition labels_of (rs : list res3) (h : hbond) : list label * bool :=
  match nth_error rs (h_i h), nth_error rs (h_j h) with
  | Some ri, Some rj =>
      match edges_of ri (h_ni h), edges_of rj (h_nj h) with
      | Some ei, Some ej =>
          match detect_cis_trans ri rj with
          | None => ([], false)
          | Some d =>
              let cis := match d with No => false | _ => true end in
              let nr := match d with Near => true | _ => false end in
              if res_ltb ri rj
              then (flat_map (fun a => map (fun b => (h_i h, h_j h, cis, a, b)) ej) ei, nr)
              else (flat_map (fun a => map (fun b => (h_j h, h_i h, cis, b, a)) ej) ei, nr)
          end
      | _, _ => ([], false)
      end
  | _, _ => ([], false)
  end.

(* Counter: first-occurrence order with counts; most_common: stable sort by decreasing count *)
Fixpoint count_add (l : label) (c : list (label * nat)) : list (label * nat) :=
  match c with
  | [] => [(l, 1)]
  | (k, n) :: t => if label_eqb k l then (k, Datatypes.S n) :: t else (k, n) :: count_add l t
  end.
Fixpoint insert_by_count (x : label * nat) (l : list (label * nat)) : list (label * nat) :=
  match l with
  | [] => [x]
  | y :: t => if snd x <? snd y then y :: insert_by_count x t else x :: l     (* ties keep first-occurrence order *)
  end.
Definition most_common (c : list (label * nat)) : list (label * nat) := fold_right insert_by_count [] c.

Definition occupy (labels : list (label * nat)) : list label :=
  snd (fold_left (fun (acc : list (nat * ascii) * list label) ln =>
                    let '(occ, out) := acc in
                    let '((i, j, cis, ei, ej), n) := ln in
                    if n <? min_hbonds then acc
                    else if existsb (fun o => (fst o =? i) && Ascii.eqb (snd o) ei) occ then acc
                    else if existsb (fun o => (fst o =? j) && Ascii.eqb (snd o) ej) occ then acc
                    else ((i, ei) :: (j, ej) :: occ, out ++ [(i, j, cis, ei, ej)])) labels ([], [])).

Definition lw_of (l : label) : str :=
  match l with (_, _, cis, e1, e2) => [if cis then "c"%char else "t"%char; e1; e2] end.

(* sorted(base_base_pairs): by residue i, residue j, then the LW name *)
Definition pair_ltb (rs : list res3) (a b : label) : bool :=
  match a, b with (i1, j1, _, _, _), (i2, j2, _, _, _) =>
    match nth_error rs i1, nth_error rs i2, nth_error rs j1, nth_error rs j2 with
    | Some ri1, Some ri2, Some rj1, Some rj2 =>
        if i1 =? i2 then (if j1 =? j2 then str_ltb (lw_of a) (lw_of b) else res_ltb rj1 rj2) else res_ltb ri1 ri2
    | _, _, _, _ => false
    end end.
Fixpoint insert_sorted {A} (lt : A -> A -> bool) (x : A) (l : list A) : list A :=
  match l with [] => [x] | y :: t => if lt y x then y :: insert_sorted lt x t else x :: l end.   (* stable *)
Definition stable_sort {A} (lt : A -> A -> bool) (l : list A) : list A := fold_right (insert_sorted lt) [] l.

Definition saenger_of (rs : list res3) (l : label) : option str :=
  match l with (i, j, _, _, _) =>
    match nth_error rs i, nth_error rs j with
    | Some ri, Some rj =>
        match find (fun kv => str_eqb (S (fst (fst kv))) (r_letter ri ++ r_letter rj) && str_eqb (S (snd (fst kv))) (lw_of l)) saenger_table with
        | Some kv => Some (S (snd kv)) | None => None end
    | _, _ => None end end.

(* merge_and_clean_bph_br on the sorted triples *)
Definition triple_ltb (rs : list res3) (a b : nat * nat * nat) : bool :=
  match a, b with (d1, a1, k1), (d2, a2, k2) =>
    match nth_error rs d1, nth_error rs d2, nth_error rs a1, nth_error rs a2 with
    | Some rd1, Some rd2, Some ra1, Some ra2 =>
        if d1 =? d2 then (if a1 =? a2 then k1 <? k2 else res_ltb ra1 ra2) else res_ltb rd1 rd2
    | _, _, _, _ => false end end.

Definition oset_add (x : nat) (l : list nat) : list nat := if existsb (Nat.eqb x) l then l else l ++ [x].
Definition merge_classes (l : list nat) : list nat :=
  let l1 := if existsb (Nat.eqb 3) l && existsb (Nat.eqb 5) l then oset_add 4 (filter (fun x => negb ((x =? 3) || (x =? 5))) l) else l in
  let l2 := if existsb (Nat.eqb 7) l1 && existsb (Nat.eqb 9) l1 then oset_add 8 (filter (fun x => negb ((x =? 7) || (x =? 9))) l1) else l1 in
  match l2 with x :: _ :: _ => [x] | _ => l2 end.
Fixpoint group_classes (l : list (nat * nat * nat)) (acc : list ((nat * nat) * list nat)) : list ((nat * nat) * list nat) :=
  match l with
  | [] => acc
  | (d, a, k) :: t =>
      let fix upd (m : list ((nat * nat) * list nat)) :=
        match m with
        | [] => [((d, a), [k])]
        | ((d', a'), ks) :: m' => if (d =? d') && (a =? a') then ((d', a'), oset_add k ks) :: m' else ((d', a'), ks) :: upd m'
        end in
      group_classes t (upd acc)
  end.
Definition merge_and_clean (rs : list res3) (l : list (nat * nat * nat)) : list (nat * nat * nat) :=
  flat_map (fun g => map (fun k => (fst (fst g), snd (fst g), k)) (merge_classes (snd g)))
           (group_classes (stable_sort (triple_ltb rs) l) []).

Record pairs_out := {
  po_pairs : list (nat * nat * str * option str);
  po_bph : list (nat * nat * nat);
  po_br : list (nat * nat * nat);
  po_near : bool }.

Definition find_pairs (rs : list res3) (order : list (nat * nat)) : pairs_out :=
  let cs := candidates rs in
  if length cs <? 2 then {| po_pairs := []; po_bph := []; po_br := []; po_near := false |}
  else
    let st := fold_left (step_pair rs cs) order {| used := []; hbonds := []; bphs := []; brs := []; near := false |} in
    let labs := map (labels_of rs) (hbonds st) in
    let counted := fold_left (fun c l => count_add l c) (flat_map fst labs) [] in
    let chosen := occupy (most_common counted) in
    {| po_pairs := map (fun l => match l with (i, j, _, _, _) => (i, j, lw_of l, saenger_of rs l) end) (stable_sort (pair_ltb rs) chosen);
       po_bph := merge_and_clean rs (bphs st);
       po_br := merge_and_clean rs (brs st);
       po_near := near st || existsb snd labs |}.

(* ---------------------------------------------------------------- find_stackings *)
(* centroid of the present base atoms: (sum, count) *)
Definition centroid (r : res3) : option (vecZ * Z) :=
  let ps := flat_map (fun nm => match find_atom r nm with Some p => [p] | None => [] end) (names_of base_atoms (r_letter r)) in
  match ps with
  | [] => None
  | _ => Some (fold_left (fun acc p => vadd Z Z.add acc p) ps (0, 0, 0)%Z, Z.of_nat (length ps))
  end.

Definition scale (k : Z) (v : vecZ) : vecZ := vscale Z Z.mul k v.

(* |cos angle(a,b)| >= cos thr, i.e. min(angle(a,b), angle(-a,b)) <= thr *)
Definition cos2_atleast (lo hi : Q) (a b : vecZ) : tri :=
  match cos2_below lo hi a b with Yes => No | No => (if (norm2Z a =? 0)%Z || (norm2Z b =? 0)%Z then No else Yes) | Near => Near end.
(* angle(v, n) <= thr (thr < 90): positive cosine and cos^2 >= cos^2 thr *)
Definition angle_atmost (lo hi : Q) (v n : vecZ) : tri :=
  if (dotZ v n <=? 0)%Z then No else cos2_atleast lo hi v n.
Definition tri_or (a b : tri) : tri :=
  match a, b with Yes, _ => Yes | _, Yes => Yes | No, No => No | _, _ => Near end.

Record stack_out := { so_stackings : list (nat * nat * string); so_near : bool }.

(* centres: index into the list of residues that have a centroid *)
Definition centres (rs : list res3) : list (nat * (vecZ * Z)) :=
  flat_map (fun ir => match centroid (snd ir) with Some c => [(fst ir, c)] | None => [] end) (combine (seq 0 (length rs)) rs).

Definition stack_ltb (rs : list res3) (a b : nat * nat * string) : bool :=
  match a, b with (i1, j1, t1), (i2, j2, t2) =>
    match nth_error rs i1, nth_error rs i2, nth_error rs j1, nth_error rs j2 with
    | Some ri1, Some ri2, Some rj1, Some rj2 =>
        if i1 =? i2 then (if j1 =? j2 then str_ltb (S t1) (S t2) else res_ltb rj1 rj2) else res_ltb ri1 ri2
    | _, _, _, _ => false end end.

(* one neighbour pair of centres: the entry it contributes (if any) and whether a decision fell inside a band *)
Definition stack_pair (rs : list res3) (cs : list (nat * (vecZ * Z))) (ij : nat * nat) : option (nat * nat * string) * bool :=
  match nth_error cs (fst ij), nth_error cs (snd ij) with
  | Some (i, (si, ki)), Some (j, (sj, kj)) =>
      match nth_error rs i, nth_error rs j with
      | Some ri, Some rj =>
          match base_normal ri, base_normal rj with
          | Some ni, Some nj =>
              match cos2_atleast cos2_normals_lo cos2_normals_hi ni nj with
              | No => (None, false)
              | d1 =>
                  (* centre_i - centre_j, scaled by ki*kj > 0 *)
                  let v := vsubZ (scale kj si) (scale ki sj) in
                  match tri_or (angle_atmost cos2_vector_lo cos2_vector_hi v ni) (angle_atmost cos2_vector_lo cos2_vector_hi v nj) with
                  | No => (None, match d1 with Near => true | _ => false end)
                  | d2 =>
                      let same := (0 <? dotZ ni nj)%Z in
                      let entry := if res_ltb ri rj then (i, j, if same then "upward" else "inward")%string
                                   else (j, i, if same then "downward" else "outward")%string in
                      (Some entry, match d1, d2 with Yes, Yes => false | _, _ => true end)
                  end
              end
          | _, _ => (None, false)
          end
      | _, _ => (None, false)
      end
  | _, _ => (None, false)
  end.

Definition find_stackings (rs : list res3) (order : list (nat * nat)) : stack_out :=
  let cs := centres rs in
  if length cs <? 2 then {| so_stackings := []; so_near := false |}
  else
    let res := map (stack_pair rs cs) order in
    {| so_stackings := stable_sort (stack_ltb rs) (flat_map (fun r => match fst r with Some e => [e] | None => [] end) res);
       so_near := existsb snd res |}.

(* the true neighbour sets the KD-tree must return *)
Definition hbond_neighbours (rs : list res3) : list (nat * nat) :=
  neighbour_pairs hbond_max_distance (map c_pos (candidates rs)).
(* centroid distance <= 6: |kj*si - ki*sj|^2 <= (6 * ki * kj * GRID)^2 *)
Definition stacking_neighbours (rs : list res3) : list (nat * nat) :=
  let cs := centres rs in
  flat_map (fun a => flat_map (fun b =>
     let '(ia, (i, (si, ki))) := a in let '(jb, (j, (sj, kj))) := b in
     if (ia <? jb) && Qle_bool (inject_Z (norm2Z (vsubZ (scale kj si) (scale ki sj))))
                               ((stacking_max_distance * inject_Z (ki * kj * GRIDZ)) * (stacking_max_distance * inject_Z (ki * kj * GRIDZ)))
     then [(ia, jb)] else []) (combine (seq 0 (length cs)) cs)) (combine (seq 0 (length cs)) cs).
