(* M-2D, part 2: the pseudoknot-order MILP of convert_to_dot_bracket, the solver as an oracle,
   the read-back and the fallbacks.  Executable definitions only. *)
From Coq Require Import String Ascii ZArith List Bool Arith.
From RV Require Import Base.Val Gen.Common Model.Bpseq.
Import ListNotations.

(* conflict graph over region indices: for i < j the source tests (ri, rj) *)
Definition adj_with (cf : nat -> nat -> nat -> nat -> bool) (rs : list region) (i j : nat) : bool :=
  match nth_error rs (Nat.min i j), nth_error rs (Nat.max i j) with
  | Some r, Some q => negb (i =? j) && conflicts_with cf r q
  | _, _ => false
  end.
Definition adj_db := adj_with conflict_db.

Definition neighbours (adj : nat -> nat -> bool) (n i : nat) : list nat :=
  filter (fun j => adj i j) (seq 0 n).
Definition degree (adj : nat -> nat -> bool) (n i : nat) : nat := length (neighbours adj n i).
Definition max_degree (adj : nat -> nat -> bool) (n : nat) : nat :=
  fold_right Nat.max 0 (map (degree adj n) (seq 0 n)).
Definition has_conflict (adj : nat -> nat -> bool) (n : nat) : bool :=
  existsb (fun i => negb (degree adj n i =? 0)) (seq 0 n).

(* max_order = max(map(len, graph.values())) + slack *)
Definition max_order (rs : list region) : nat := max_degree (adj_db rs) (length rs) + max_order_slack.

Definition rlen (r : region) : Z := match r with (_, _, n) => Z.of_nat n end.

(* a 0/1 point: x i o = true iff variable x_i_o has value 1 *)
Definition point := nat -> nat -> bool.

Definition one_level (m : nat) (x : point) (i : nat) : bool :=
  length (filter (x i) (seq 0 m)) =? 1.
Definition feasible (rs : list region) (x : point) : bool :=
  let n := length rs in let m := max_order rs in
  forallb (one_level m x) (seq 0 n) &&
  forallb (fun i => forallb (fun j => forallb (fun o => negb (x i o && x j o)) (seq 0 m))
                            (neighbours (adj_db rs) n i)) (seq 0 n).

Definition objective (rs : list region) (x : point) : Z :=
  fold_right Z.add 0%Z
    (map (fun io => if x (fst io) (snd io) then obj_coef (Z.of_nat (snd io)) (rlen (nth (fst io) rs (0, 0, 0))) else 0%Z)
         (list_prod (seq 0 (length rs)) (seq 0 (max_order rs)))).

(* orders[i] = order for every variable with value 1; for a feasible point exactly one per region.
   (Outside the solver contract several could be 1; the source then keeps the last one in the
   name order of problem.variables(); the model keeps the numerically last.) *)
Definition readback (rs : list region) (x : point) : list nat :=
  map (fun i => fold_left (fun acc o => if x i o then o else acc) (seq 0 (max_order rs)) 0)
      (seq 0 (length rs)).

(* what the solver does: an oracle, never an axiom *)
Inductive solver_answer :=
| SolverRaises                 (* PulpSolverError *)
| NotOptimal                   (* status not solved / infeasible / unbounded / undefined *)
| Optimal (x : point).

(* solver = None | Some oracle *)
Definition convert (solver : option solver_answer) (b : bpseq) : result (list ascii) :=
  match solver with
  | None => if fallback_returns_fcfs then fcfs b else Raise TypeError
  | Some ans =>
      let rs := regions b in
      if negb (has_conflict (adj_db rs) (length rs)) then make_db b rs (repeat 0 (length rs))
      else match ans with
           | SolverRaises => if fallback_returns_fcfs then fcfs b else Raise TypeError
           | NotOptimal => if fallback_returns_fcfs then fcfs b else Raise TypeError
           | Optimal x => make_db b rs (readback rs x)
           end
  end.

(* the level assignment a point denotes, and the score the property speaks of:
   pairs on level 0 minus sum over k >= 1 of k * pairs on level k *)
Definition score (rs : list region) (ord : list nat) : Z :=
  fold_right Z.add 0%Z
    (map (fun ro => let l := rlen (fst ro) in
                    match snd ro with 0 => l | S _ => (- Z.of_nat (snd ro) * l)%Z end)
         (combine rs ord)).

Definition properb (adj : nat -> nat -> bool) (ord : list nat) : bool :=
  let n := length ord in
  forallb (fun i => forallb (fun j => negb (adj i j) || negb (nth i ord 0 =? nth j ord 0)) (seq 0 n)) (seq 0 n).

(* exhaustive optimiser: all assignments with ord_i <= degree_i *)
Fixpoint assignments (bounds : list nat) : list (list nat) :=
  match bounds with
  | [] => [[]]
  | bd :: rest => flat_map (fun tl => map (fun o => o :: tl) (seq 0 (S bd))) (assignments rest)
  end.
Definition opt_score (rs : list region) : Z :=
  let n := length rs in
  let adj := adj_db rs in
  let cands := filter (properb adj) (assignments (map (degree adj n) (seq 0 n))) in
  fold_right Z.max (score rs (repeat 0%nat n) - 1000000000)%Z (map (score rs) cands).

(* levels decoded from a dot-bracket string: level of the bracket written at the 5' start of each region *)
Definition levels_of (rs : list region) (s : list ascii) : list nat :=
  map (fun r => match r with (j, _, _) =>
                  match index_of (nth (j - 1) s dot) opening with Some t => t | None => 0 end end) rs.
