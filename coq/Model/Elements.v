(* M-2D, part 4: structural elements (BpSeq.elements).  Executable definitions only. *)
From Coq Require Import String Ascii ZArith List Bool Arith.
From RV Require Import Base.Val Gen.Common Model.Bpseq Model.AllDb.
Import ListNotations.

Record strand := { s_first : nat; s_last : nat; s_seq : list ascii; s_str : list ascii }.

Definition slice {A} (l : list A) (a b : nat) : list A := firstn (b - a) (skipn a l).

(* Strand.from_bpseq_entries(entries, dotbracket) *)
Definition strand_of (es : list entry) (db : list ascii) : strand :=
  let first := match es with e :: _ => idx e | [] => 0 end in
  let last := first + length es - 1 in
  {| s_first := first; s_last := last; s_seq := map nt es; s_str := slice db (first - 1) last |}.

(* Stem.from_bpseq_entries: the 3' entries are those whose index is a partner of a 5' entry,
   in entry order *)
Definition stem_of (b : bpseq) (db : list ascii) (st : list entry) : strand * strand :=
  let paired := map pair st in
  (strand_of st db, strand_of (filter (fun e => mem (idx e) paired) b) db).

Definition strand_eqb (a b : strand) : bool :=
  (s_first a =? s_first b) && (s_last a =? s_last b) && str_eqb (s_seq a) (s_seq b) && str_eqb (s_str a) (s_str b).

Record elements_t := {
  el_stems : list (strand * strand);
  el_single : list (strand * bool * bool);
  el_hairpins : list strand;
  el_loops : list (list strand) }.

Definition pair_of_idx (b : bpseq) (i : nat) : nat := pair_at b i.

(* follow the successor relation among loop candidates: graph[i] = { j | entries[last_i-1].pair = first_j } *)
Definition succs (b : bpseq) (lc : list strand) (i : nat) : list nat :=
  match nth_error lc i with
  | Some si => filter (fun j => negb (j =? i) &&
                                match nth_error lc j with
                                | Some sj => pair_of_idx b (s_last si) =? s_first sj
                                | None => false end) (seq 0 (length lc))
  | None => []
  end.

Fixpoint chase (b : bpseq) (lc : list strand) (used loop : list strand) (i fuel : nat) : list strand :=
  match fuel with
  | 0 => loop
  | S f =>
      match find (fun j => match nth_error lc j with
                           | Some sj => negb (existsb (strand_eqb sj) used) && negb (existsb (strand_eqb sj) loop)
                           | None => false end) (succs b lc i) with
      | Some j => match nth_error lc j with
                  | Some sj => chase b lc used (loop ++ [sj]) j f
                  | None => loop end
      | None => loop
      end
  end.

Definition stops_of (stems_ : list (strand * strand)) : list nat :=
  sort_nat (fold_right (fun x acc => if mem x acc then acc else x :: acc) []
              (flat_map (fun s => [s_first (fst s) - 1; s_last (fst s) - 1; s_first (snd s) - 1; s_last (snd s) - 1]) stems_)).
Definition cands_of (b : bpseq) (stops : list nat) : list (list entry) :=
  map (fun ab => slice b (fst ab) (snd ab + 1)) (combine stops (tl stops)).
Definition interior_unpaired (c : list entry) : bool := forallb (fun e => pair e =? 0) (removelast (tl c)).
Definition is_hp (c : list entry) : bool := match c with e :: _ => pair e =? idx (last c e) | [] => false end.
Definition ok_of (b : bpseq) (stops : list nat) : list (list entry) := filter interior_unpaired (cands_of b stops).
Definition lc_of (b : bpseq) (db : list ascii) (stops : list nat) : list strand :=
  map (fun c => strand_of c db) (filter (fun c => negb (is_hp c)) (ok_of b stops)).
Definition loop_step (b : bpseq) (lc : list strand) (acc : list (list strand) * list strand) (i : nat) : list (list strand) * list strand :=
  let '(loops, used) := acc in
  match nth_error lc i with
  | Some s0 =>
      let loop := chase b lc used [s0] i (length lc) in
      if (pair_of_idx b (s_first s0) =? s_last (last loop s0)) &&
         negb (forallb (fun s => s_last s - s_first s <=? 1) loop)
      then (loops ++ [loop], used ++ loop) else (loops, used)
  | None => acc
  end.
Definition loops_of (b : bpseq) (lc : list strand) : list (list strand) * list strand :=
  fold_left (loop_step b lc) (seq 0 (length lc)) ([], []).

Definition elements (b : bpseq) (db : list ascii) : elements_t :=
  match stems b with
  | [] => {| el_stems := []; el_single := []; el_hairpins := []; el_loops := [] |}
  | sts =>
      let stems_ := map (stem_of b db) sts in
      let stops := stops_of stems_ in
      let n := length b in
      let stop0 := hd 0 stops in
      let stopl := last stops 0 in
      let five := if 0 <? stop0 then [(strand_of (firstn (stop0 + 1) b) db, true, false)] else [] in
      let hairpins := map (fun c => strand_of c db) (filter is_hp (ok_of b stops)) in
      let lc := lc_of b db stops in
      let three := if stopl <? n - 1 then [(strand_of (skipn stopl b) db, false, true)] else [] in
      let rest := map (fun s => (s, false, false)) (filter (fun s => negb (existsb (strand_eqb s) (snd (loops_of b lc)))) lc) in
      {| el_stems := stems_; el_single := five ++ three ++ rest; el_hairpins := hairpins; el_loops := fst (loops_of b lc) |}
  end.

(* specification side of "every unpaired nucleotide lies in exactly one strand": how many reported strands have nucleotide k
   in their interior (5'/3' tails: up to their free end) *)
Definition cnt {A} (f : A -> bool) (l : list A) : nat := length (filter f l).
Definition covs (k : nat) (s : strand) : bool := (s_first s <? k) && (k <? s_last s).
Definition cov1 (k : nat) (x : strand * bool * bool) : bool :=
  let s := fst (fst x) in
  if snd (fst x) then (s_first s <=? k) && (k <? s_last s)
  else if snd x then (s_first s <? k) && (k <=? s_last s) else covs k s.
Definition times_covered (E : elements_t) (k : nat) : nat :=
  cnt (cov1 k) (el_single E) + cnt (covs k) (el_hairpins E) + cnt (covs k) (concat (el_loops E)).

(* without_isolated: unpair the stems of length 1 *)
Definition without_isolated (b : bpseq) : bpseq :=
  let iso := flat_map (fun st => match st with [e] => [idx e; pair e] | _ => [] end) (stems b) in
  map (fun e => if mem (idx e) iso then {| idx := idx e; nt := nt e; pair := 0 |} else e) b.

(* DotBracket.without_pseudoknots + BpSeq.from_dotbracket *)
Definition erase_pk (s : list ascii) : list ascii :=
  map (fun c => if existsb (Ascii.eqb c) pk_chars then dot else c) s.
Definition without_pseudoknots_of (b : bpseq) (db : list ascii) : result bpseq :=
  match parse_db (erase_pk db) with
  | Ok ps => Ok (from_db (sequence b) ps)
  | Raise e => Raise e
  end.
