(* M-IO: import of FR3D listings and DSSR documents (adapter.py).  Executable, no proofs.
   The label function `unify` is generated from the source (Gen/Adapter.v). *)
From Coq Require Import String Ascii ZArith List Bool Arith.
From RV Require Import Base.Val Base.PyStr Gen.Common Gen.Adapter.
Import ListNotations.

(* ---------------------------------------------------------------- int(str) on ASCII *)
Definition digit_val (c : ascii) : Z := Z.of_nat (nat_of_ascii c - 48).
Definition underscore : ascii := "_"%char.

(* digits with single underscores between digits *)
Fixpoint digits_go (s : str) (acc : Z) (prev_digit : bool) : option Z :=
  match s with
  | [] => if prev_digit then Some acc else None
  | c :: s' =>
      if is_digit_char c then digits_go s' (acc * 10 + digit_val c)%Z true
      else if Ascii.eqb c underscore && prev_digit then
             match s' with d :: _ => if is_digit_char d then digits_go s' acc false else None | [] => None end
           else None
  end.
Definition parse_int (s : str) : result Z :=
  match strip s with
  | [] => Raise ValueError
  | c :: r =>
      if Ascii.eqb c "-"%char then match digits_go r 0 false with Some v => Ok (- v)%Z | None => Raise ValueError end
      else if Ascii.eqb c "+"%char then match digits_go r 0 false with Some v => Ok v | None => Raise ValueError end
      else match digits_go (c :: r) 0 false with Some v => Ok v | None => Raise ValueError end
  end.

(* ---------------------------------------------------------------- unit ids and lines *)
Record residue_id := { r_chain : str; r_number : Z; r_icode : option str; r_name : str }.

Definition field (fs : list str) (k : nat) : result str :=
  match nth_error fs k with Some f => Ok f | None => Raise IndexError end.

(* evaluation order of ResidueAuth(fields[2], int(fields[4]), icode, fields[3]) *)
Definition parse_unit_id (nt : str) : result residue_id :=
  let fs := split_on unit_separator nt in
  let icode := match nth_error fs unit_icode_field with
               | Some f => if (S unit_icode_field <=? length fs) && negb (str_eqb f []) then Some f else None
               | None => None end in
  match field fs unit_chain_field with
  | Raise e => Raise e
  | Ok ch =>
      match field fs unit_number_field with
      | Raise e => Raise e
      | Ok numf =>
          match parse_int numf with
          | Raise e => Raise e
          | Ok num =>
              match field fs unit_name_field with
              | Raise e => Raise e
              | Ok nm => Ok {| r_chain := ch; r_number := num; r_icode := icode; r_name := nm |}
              end
          end
      end
  end.

Record interaction := { i_category : str; i_nt1 : residue_id; i_nt2 : residue_id; i_class : option str }.

Definition caught (e : exn) : bool :=
  existsb (fun c => String.eqb (exn_name c) (exn_name e)) line_catches.

(* _process_interaction_line: Ok None = line skipped; Raise = an exception escapes the import *)
Definition process_line (line : str) : result (option interaction) :=
  let parts := split_on (ascii_of_nat 9) line in
  if length parts <? line_min_fields then Ok None
  else
    let contain {A} (r : result A) (k : A -> result (option interaction)) : result (option interaction) :=
      match r with
      | Ok a => k a
      | Raise e => if caught e then Ok None else Raise e
      end in
    contain (parse_unit_id (nth 0 parts [])) (fun nt1 =>
    contain (parse_unit_id (nth 2 parts [])) (fun nt2 =>
    contain (unify (nth 1 parts [])) (fun cc =>
      Ok (Some {| i_category := fst cc; i_nt1 := nt1; i_nt2 := nt2; i_class := snd cc |})))).

(* parse_fr3d_output: strip each line, skip empty lines and comments *)
Definition hash : ascii := "#"%char.
Definition import_lines (lines : list str) : result (list interaction) :=
  fold_right (fun line acc =>
                match acc with
                | Raise e => Raise e
                | Ok l =>
                    let s := strip line in
                    match s with
                    | [] => Ok l
                    | c :: _ => if Ascii.eqb c hash then Ok l
                                else match process_line s with
                                     | Ok (Some i) => Ok (i :: l)
                                     | Ok None => Ok l
                                     | Raise e => Raise e
                                     end
                    end
                end) (Ok []) lines.

(* ---------------------------------------------------------------- DSSR *)
(* match_dssr_name_to_residue: nt_id.split(":")[-1] compared with full names, first match *)
Definition dssr_resolve (names : list str) (nt : option str) : option nat :=
  match nt with
  | None => None
  | Some s => let key := last (split_on ":"%char s) [] in
              (fix go (l : list str) (i : nat) := match l with
                                                   | [] => None
                                                   | x :: t => if str_eqb x key then Some i else go t (S i) end) names 0
  end.

Definition dssr_lw (lw : option str) : result (option str) :=
  match lw with
  | None => Ok None
  | Some s =>
      match enum_lookup lw_members s with
      | Some v => Ok (Some v)
      | None => if dssr_lw_test_is_membership then Ok None
                else (* dir() also lists non-member attributes: those raise KeyError; others are None *)
                  if starts_with (L "__") s then Raise KeyError else Ok None
      end
  end.

Definition dssr_pairs (names : list str) (pairs : list (option str * option str * option str))
  : result (list (nat * nat * str)) :=
  fold_right (fun p acc =>
                match acc with
                | Raise e => Raise e
                | Ok l =>
                    match p with (n1, n2, lw) =>
                      match dssr_lw lw with
                      | Raise e => Raise e
                      | Ok c => match dssr_resolve names n1, dssr_resolve names n2, c with
                                | Some a, Some b, Some cls => Ok ((a, b, cls) :: l)
                                | _, _, _ => Ok l
                                end
                      end
                    end
                end) (Ok []) pairs.

(* consecutive members of a stack that both resolve *)
Definition dssr_stack (names : list str) (nts_long : str) : list (nat * nat) :=
  let rs := map (fun s => dssr_resolve names (Some s)) (split_on ","%char nts_long) in
  flat_map (fun ab => match ab with (Some a, Some b) => [(a, b)] | _ => [] end) (combine rs (tl rs)).
