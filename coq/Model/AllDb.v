(* M-2D, part 3: all_dot_brackets — components of the conflict graph, first-fit colouring of
   every permutation, product across components.  Executable definitions only. *)
From Coq Require Import String Ascii ZArith List Bool Arith.
From RV Require Import Base.Val Gen.Common Model.Bpseq Model.Milp.
Import ListNotations.

Definition adj_all := adj_with conflict_all.

Definition mem (x : nat) (l : list nat) : bool := existsb (Nat.eqb x) l.
Definition add_new (l : list nat) (xs : list nat) : list nat :=
  fold_left (fun acc x => if mem x acc then acc else acc ++ [x]) xs l.

(* vertices reachable from v: n rounds of neighbour expansion *)
Fixpoint reach (adj : nat -> nat -> bool) (n : nat) (fuel : nat) (cur : list nat) : list nat :=
  match fuel with
  | 0 => cur
  | S f => reach adj n f (add_new cur (flat_map (neighbours adj n) cur))
  end.

Fixpoint insert_nat (x : nat) (l : list nat) : list nat :=
  match l with [] => [x] | y :: t => if x <=? y then x :: l else y :: insert_nat x t end.
Definition sort_nat (l : list nat) : list nat := fold_right insert_nat [] l.

(* components with at least one edge, each sorted, ordered by least vertex *)
Definition components (adj : nat -> nat -> bool) (n : nat) : list (list nat) :=
  fold_left (fun acc v =>
               if (degree adj n v =? 0) || existsb (mem v) acc then acc
               else acc ++ [sort_nat (reach adj n n [v])])
            (seq 0 n) [].

Fixpoint inserts (x : nat) (l : list nat) : list (list nat) :=
  match l with
  | [] => [[x]]
  | y :: t => (x :: l) :: map (cons y) (inserts x t)
  end.
Fixpoint perms (l : list nat) : list (list nat) :=
  match l with [] => [[]] | x :: t => flat_map (inserts x) (perms t) end.

(* first-fit along a permutation: the first vertex gets 0, each later one the lowest level not
   used by an earlier neighbour; `available` has len(component) slots *)
Definition assoc := list (nat * nat).
Definition lookup (a : assoc) (v : nat) : nat :=
  match find (fun p => fst p =? v) a with Some p => snd p | None => 0 end.

Fixpoint firstfit_go (adj : nat -> nat -> bool) (levels : nat) (done : assoc) (rest : list nat) : result assoc :=
  match rest with
  | [] => Ok done
  | v :: rest' =>
      let used := map snd (filter (fun p => adj v (fst p)) done) in
      match first_free used levels with
      | Some o => firstfit_go adj levels (done ++ [(v, o)]) rest'
      | None => Raise StopIteration
      end
  end.
Definition firstfit (adj : nat -> nat -> bool) (perm : list nat) : result assoc :=
  match perm with
  | [] => Ok []
  | v :: rest => firstfit_go adj (length perm) [(v, 0)] rest
  end.

Definition canon (a : assoc) (comp : list nat) : list nat := map (lookup a) comp.

Fixpoint list_nat_eqb (a b : list nat) : bool :=
  match a, b with
  | [], [] => true
  | x :: a', y :: b' => (x =? y) && list_nat_eqb a' b'
  | _, _ => false
  end.
Definition dedup_nl (l : list (list nat)) : list (list nat) :=
  fold_left (fun acc x => if existsb (list_nat_eqb x) acc then acc else acc ++ [x]) l [].

(* the distinct colourings of one component, as level lists along the sorted component *)
Definition component_colourings (adj : nat -> nat -> bool) (comp : list nat) : result (list (list nat)) :=
  match fold_right (fun perm acc =>
                match acc, firstfit adj perm with
                | Ok l, Ok a => Ok (canon a comp :: l)
                | Raise e, _ => Raise e
                | _, Raise e => Raise e
                end) (Ok []) (perms comp) with
  | Ok l => Ok (dedup_nl l)
  | Raise e => Raise e
  end.

(* cartesian product of per-component choices into full order lists over n regions *)
Definition set_orders (ord : list nat) (comp levels : list nat) : list nat :=
  fold_left (fun acc vl => set_nth acc (fst vl) (snd vl)) (combine comp levels) ord.

Fixpoint product_orders (n : nat) (comps : list (list nat)) (choices : list (list (list nat))) : list (list nat) :=
  match comps, choices with
  | comp :: comps', ch :: choices' =>
      flat_map (fun ord => map (set_orders ord comp) ch) (product_orders n comps' choices')
  | _, _ => [repeat 0 n]
  end.

Fixpoint sequence_results {A} (l : list (result A)) : result (list A) :=
  match l with
  | [] => Ok []
  | Ok a :: t => match sequence_results t with Ok l' => Ok (a :: l') | Raise e => Raise e end
  | Raise e :: _ => Raise e
  end.

(* string order and de-duplication, for the final sorted list *)
Fixpoint str_ltb (a b : list ascii) : bool :=
  match a, b with
  | [], [] => false
  | [], _ :: _ => true
  | _ :: _, [] => false
  | x :: a', y :: b' =>
      if (nat_of_ascii x <? nat_of_ascii y) then true
      else if (nat_of_ascii y <? nat_of_ascii x) then false else str_ltb a' b'
  end.
Fixpoint str_eqb (a b : list ascii) : bool :=
  match a, b with
  | [], [] => true
  | x :: a', y :: b' => Ascii.eqb x y && str_eqb a' b'
  | _, _ => false
  end.
Fixpoint insert_str (x : list ascii) (l : list (list ascii)) : list (list ascii) :=
  match l with
  | [] => [x]
  | y :: t => if str_eqb x y then l else if str_ltb x y then x :: l else y :: insert_str x t
  end.
Definition sort_dedup_str (l : list (list ascii)) : list (list ascii) := fold_right insert_str [] l.

Definition all_orders (rs : list region) : result (list (list nat)) :=
  let n := length rs in
  let adj := adj_all rs in
  let comps := components adj n in
  match sequence_results (map (component_colourings adj) comps) with
  | Ok choices => Ok (product_orders n comps choices)
  | Raise e => Raise e
  end.

(* the list returned (sorted by structure string after the fix for C14) *)
Definition all_db (b : bpseq) : result (list (list ascii)) :=
  let rs := regions b in
  if negb (has_conflict (adj_all rs) (length rs)) then
    match fcfs b with Ok s => Ok [s] | Raise e => Raise e end
  else
    match all_orders rs with
    | Ok ords =>
        match sequence_results (map (make_db b rs) ords) with
        | Ok ss => Ok (sort_dedup_str ss)
        | Raise e => Raise e
        end
    | Raise e => Raise e
    end.

(* ---- the independent characterisation: greedy-stable assignments *)
Definition stableb (adj : nat -> nat -> bool) (ord : list nat) : bool :=
  let n := length ord in
  properb adj ord &&
  forallb (fun i => forallb (fun k => existsb (fun j => adj i j && (nth j ord 0 =? k)) (seq 0 n))
                            (seq 0 (nth i ord 0))) (seq 0 n).

Definition stable_db (b : bpseq) : result (list (list ascii)) :=
  let rs := regions b in
  let n := length rs in
  let adj := adj_all rs in
  let cands := filter (stableb adj) (assignments (map (degree adj n) (seq 0 n))) in
  match sequence_results (map (make_db b rs) cands) with
  | Ok ss => Ok (sort_dedup_str ss)
  | Raise e => Raise e
  end.
