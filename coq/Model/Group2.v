(* M-IO: residue grouping of the two reader generations.
   parser.py (group_atoms) starts a new residue whenever the identity of the next atom differs from the previous
   atom's: `group_adj` (Reader1.group is its instance at same_residue).
   tertiary_v2.Structure.residues groups the atom table by its residue key (pandas groupby): every atom with the
   same key lands in the same residue wherever it stands in the file: `groupby`, listing the groups by the first
   occurrence of their key (pandas lists them in key order: the correspondence check compares up to that order).
   Executable, no proofs. *)
From Coq Require Import String Ascii ZArith List Bool Arith.
From RV Require Import Base.Val Base.PyStr Model.Reader1 Model.PdbLine.
Import ListNotations.

Section Grouping.
  Context {T : Type} (same : T -> T -> bool).

  Fixpoint group_adj (rows : list T) : list (list T) :=
    match rows with
    | [] => []
    | a :: rest =>
        match group_adj rest with
        | (b :: g) :: gs => if same a b then (a :: b :: g) :: gs else [a] :: (b :: g) :: gs
        | [] :: gs => [a] :: gs
        | [] => [[a]]
        end
    end.

  Fixpoint groupby_fuel (fuel : nat) (rows : list T) : list (list T) :=
    match fuel, rows with
    | S f, a :: rest => (a :: filter (same a) rest) :: groupby_fuel f (filter (fun b => negb (same a b)) rest)
    | _, _ => []
    end.
  Definition groupby (rows : list T) : list (list T) := groupby_fuel (length rows) rows.
End Grouping.

(* the residue key of the table-level reader on PDB-derived tables: (chainID, resSeq, iCode) *)
Definition oz_eqb (a b : option Z) : bool :=
  match a, b with Some x, Some y => (x =? y)%Z | None, None => true | _, _ => false end.
Definition key2_eqb (p q : parsed_rec) : bool :=
  str_eqb (p_chain p) (p_chain q) && oz_eqb (p_resseq p) (p_resseq q) && str_eqb (p_icode p) (p_icode q).

Definition residues_v2 (rows : list parsed_rec) : list (list parsed_rec) := groupby key2_eqb rows.
Definition residues_v1 (atoms : list atom1) : list (list atom1) := group_adj same_residue atoms.

(* connected_residues of the table-level reader works chain by chain on residues sorted by (number, insertion code);
   segments shorter than two residues are dropped.  `conn` is the O3'-P test (an oracle here: C15 pins its statement). *)
Section Segments.
  Context {R : Type} (conn : R -> R -> bool).
  Fixpoint segments_go (cur : list R) (rs : list R) : list (list R) :=
    match rs with
    | [] => if (2 <=? length cur)%nat then [rev cur] else []
    | r :: rest =>
        match cur with
        | [] => segments_go [r] rest
        | prev :: _ =>
            if conn prev r then segments_go (r :: cur) rest
            else (if (2 <=? length cur)%nat then [rev cur] else []) ++ segments_go [r] rest
        end
    end.
  Definition segments (rs : list R) : list (list R) := segments_go [] rs.
End Segments.
