(* M-IO: fitting an atom table to PDB limits (parser_v2.fit_to_pdb) — the algorithm the code spells out:
   first-seen chain map onto the 62-symbol alphabet, first-seen residue numbering per chain, serial
   renumbering with a gap for every TER.  Executable, no proofs. *)
From Coq Require Import String Ascii ZArith List Bool Arith.
From RV Require Import Base.Val Base.PyStr Gen.ParserV2.
Import ListNotations.

Record frow := { f_serial : Z; f_chain : str; f_resseq : Z; f_icode : str; f_id : nat (* stands for all other fields *) }.

Inductive fit_result := Unchanged | Refused | Fitted (t : list frow).

Definition zmax (l : list Z) : Z := fold_right Z.max 0%Z l.
Definition fits (is_pdb : bool) (t : list frow) : bool :=
  is_pdb || match t with [] => true | _ =>
    (zmax (map f_serial t) <=? max_pdb_serial)%Z && forallb (fun r => length (f_chain r) <=? 1) t &&
    (zmax (map f_resseq t) <=? max_pdb_residue)%Z end.

Fixpoint uniq_strs (l : list str) (seen : list str) : list str :=
  match l with
  | [] => rev seen
  | x :: t => if mem_str x seen then uniq_strs t seen else uniq_strs t (x :: seen)
  end.
Definition unique_chains (t : list frow) : list str := uniq_strs (map f_chain t) [].

Definition res_key_eqb (a b : Z * str) : bool := (fst a =? fst b)%Z && str_eqb (snd a) (snd b).
Fixpoint uniq_res (l : list (Z * str)) (seen : list (Z * str)) : list (Z * str) :=
  match l with
  | [] => rev seen
  | x :: t => if existsb (res_key_eqb x) seen then uniq_res t seen else uniq_res t (x :: seen)
  end.
Definition residues_of (t : list frow) (chain : str) : list (Z * str) :=
  uniq_res (map (fun r => (f_resseq r, f_icode r)) (filter (fun r => str_eqb (f_chain r) chain) t)) [].

Fixpoint index_of_str (x : str) (l : list str) : nat :=
  match l with [] => 0 | y :: t => if str_eqb x y then 0 else S (index_of_str x t) end.
Fixpoint index_of_res (x : Z * str) (l : list (Z * str)) : nat :=
  match l with [] => 0 | y :: t => if res_key_eqb x y then 0 else S (index_of_res x t) end.

Definition new_chain (chains : list str) (c : str) : str :=
  match nth_error chain_alphabet (index_of_str c chains) with Some a => [a] | None => [] end.

(* serial renumbering in original order, one extra step at every change of chain *)
Fixpoint renumber (cur : Z) (last : option str) (l : list frow) : list frow :=
  match l with
  | [] => []
  | r :: rest =>
      let bump := match last with Some c => if str_eqb c (f_chain r) then 0%Z else 1%Z | None => 0%Z end in
      let s := (cur + bump + 1)%Z in
      {| f_serial := s; f_chain := f_chain r; f_resseq := f_resseq r; f_icode := f_icode r; f_id := f_id r |}
        :: renumber s (Some (f_chain r)) rest
  end.

Definition fit (is_pdb : bool) (t : list frow) : fit_result :=
  if fits is_pdb t then Unchanged
  else
    let chains := unique_chains t in
    let nch := Z.of_nat (length chains) in
    if (max_pdb_serial <? Z.of_nat (length t) + nch)%Z then Refused
    else if (length chain_alphabet <? length chains) then Refused
    else if existsb (fun c => (max_pdb_residue <? Z.of_nat (length (residues_of t c)))%Z) chains then Refused
    else
      let renamed := map (fun r =>
                            {| f_serial := f_serial r; f_chain := new_chain chains (f_chain r);
                               f_resseq := Z.of_nat (S (index_of_res (f_resseq r, f_icode r) (residues_of t (f_chain r))));
                               f_icode := []; f_id := f_id r |}) t in
      Fitted (renumber 0 None renamed).
