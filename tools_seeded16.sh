#!/bin/bash
# tools_seeded.sh <id> [<check ids...>]: import a seeded change written by a sub-agent, confirm it, run the checks against it.
# The change is applied to /repo only for the duration of the run and undone straight afterwards.
id=$1; shift
checks=${@:-$id}
src=/tmp/wt16/$id/_seed
dst=/verif/seeded16/$id
mkdir -p $dst
if [ -d "$src" ]; then cp $src/patch.diff $src/demo.py $src/meta.json $dst/ 2>/dev/null; fi
sed -i "s#/tmp/wt16/$id/src#/repo/src#g; s#/tmp/wt16/$id/tests#/repo/tests#g; s#/tmp/wt16/$id#/repo#g" $dst/demo.py
mkdir -p /repo/_seed && cp $dst/demo.py /repo/_seed/demo.py   # untracked scratch copy so that ../tests resolves; removed below
cd /repo
git diff --quiet || { echo "/repo is dirty"; exit 2; }
out=$dst/result.txt
: > $out
echo "== demo on the unchanged tree" >> $out
(cd /repo && PYTHONPATH=/repo/src timeout 600 /venv/bin/python /repo/_seed/demo.py > /tmp/seed_demo0.log 2>&1; echo "exit=$?" >> $out)
git apply $dst/patch.diff || { echo "patch does not apply" >> $out; cat $out; exit 2; }
echo "== demo with the change" >> $out
(cd /repo && PYTHONPATH=/repo/src timeout 600 /venv/bin/python /repo/_seed/demo.py > /tmp/seed_demo1.log 2>&1; echo "exit=$?" >> $out; tail -2 /tmp/seed_demo1.log >> $out)
echo "== test suite with the change (expected: the 7 always-failing tests only)" >> $out
(cd /repo && /venv/bin/python -m pytest -q -p no:cacheprovider --timeout=900 -q 2>&1 | grep -E "^FAILED|passed|failed" >> $out)
evidence_backup=$(mktemp -d)
cp /verif/evidence/*.json $evidence_backup/ 2>/dev/null
for c in $checks; do
  echo "== ./check $c with the change" >> $out
  (cd /verif && ./check $c --tier quick 2>&1 | grep -E "VIOLATION|KNOWN-FINDING|CHECK BROKEN|tier=" | head -8 >> $out)
  for f in $(grep -o "replay=[^ ]*" $out | sed 's/replay=//' | sort -u | head -2); do
    [ -f "$f" ] && python3 -c "import json,sys; r=json.load(open('$f')); print('   ', r.get('what','')[:200])" >> $out
  done
done
git -C /repo checkout -- .
# evidence written while the seeded change was applied must never stay in the tree
cp $evidence_backup/*.json /verif/evidence/ 2>/dev/null; rm -rf $evidence_backup
rm -rf /repo/_seed
git -C /repo status --short >> $out
cat $out
