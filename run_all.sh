#!/bin/bash
# run every claimed check (quick by default) in parallel; summary at the end
cd "$(dirname "$0")"
tier=${1:-quick}
ids=$(python3 -c "import json;print(' '.join(c['property_id'] for c in json.load(open('MANIFEST.json'))['checks']))")
mkdir -p build/logs
for id in $ids; do
  ( ./check $id --tier $tier > build/logs/$id.log 2>&1; echo "$id exit=$?" ) &
done
wait
for id in $ids; do tail -1 build/logs/$id.log; grep -h "VIOLATION\|KNOWN-FINDING\|CHECK BROKEN" build/logs/$id.log | head -3; done
