"""C04 replay: two copies of one nucleotide of tests/1ehz-assembly-1.cif, the second translated by 3.4 A along the base normal
(an ideal stack, as template-built models have): find_stackings must report the stacking; it raises ValueError (math domain error)."""
import dataclasses, os, sys, warnings
import numpy as np
warnings.simplefilter("ignore")
from rnapolis.parser import read_3d_structure
from rnapolis.tertiary import Structure3D
from rnapolis.annotator import extract_base_interactions
here = os.path.dirname(os.path.abspath(__file__))
path = "/repo/tests/1ehz-assembly-1.cif"
with open(path) as f:
    s = read_3d_structure(f, 1)
bad = 0
for r in s.residues[:40]:
    n = r.base_normal_vector
    if n is None:
        continue
    t = -3.4 * np.array(n) / np.linalg.norm(n)   # library convention: the vector runs from the later to the earlier residue
    atoms = tuple(dataclasses.replace(a, x=a.x + t[0], y=a.y + t[1], z=a.z + t[2]) for a in r.atoms)
    r2 = dataclasses.replace(r, atoms=atoms, auth=dataclasses.replace(r.auth, number=r.auth.number + 1000))
    try:
        st = extract_base_interactions(Structure3D([r, r2]), 1).stackings
        if len(st) != 1:
            print("missing stacking for", r.full_name); bad += 1
    except ValueError as e:
        print("ValueError for", r.full_name, e); bad += 1
print("failures:", bad)
sys.exit(1 if bad else 0)
