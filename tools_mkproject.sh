#!/bin/bash
# regenerate coq/_CoqProject from the files present
cd "$(dirname "$0")/coq"
{
  echo "-Q . RV"
  echo "-arg -w -arg -notation-overridden,-deprecated-hint-without-locality,-deprecated-instance-without-locality"
  ls Base/*.v Gen/*.v Model/*.v Proofs/*.v Props/*.v Run/*.v 2>/dev/null
} > _CoqProject
