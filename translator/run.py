"""Regenerate coq/Gen/*.v from /repo. Files are rewritten only when their text changes, so an
unchanged source leaves the Coq build up to date. Prints a JSON summary of sites."""
import importlib
import json
import os
import sys

MODULES = ["t_common", "t_itersites", "t_adapter", "t_transformer", "t_torsion", "t_clash", "t_parser_v2", "t_parser", "t_annot"]


def main(repo="/repo", out="/verif/coq/Gen"):
    os.makedirs(out, exist_ok=True)
    summary = {}
    for m in MODULES:
        mod = importlib.import_module(f"translator.{m}")
        em = mod.generate(repo)
        path = os.path.join(out, em.modname + ".v")
        text = em.text()
        old = None
        if os.path.exists(path):
            with open(path) as f:
                old = f.read()
        if old != text:
            with open(path, "w") as f:
                f.write(text)
        summary[em.modname] = {"changed": old != text,
                               "sites": [{"site": s, "status": st, "detail": d} for s, st, d in em.sites]}
    return summary


if __name__ == "__main__":
    sys.path.insert(0, os.path.dirname(os.path.dirname(os.path.abspath(__file__))))
    s = main(*(sys.argv[1:]))
    print(json.dumps(s, indent=1))
