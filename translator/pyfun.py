"""A translator for small Python functions over strings into Gallina (restricted subset).

Supported statements: assignment to a name, `if` (with optional else), `try/except (A, B)` whose
body and handler return on every path, `return (str_const, None | Enum.member | Enum[expr])`,
expression statements that only log.  Supported expressions: names, string/int constants,
`x[k]`, `x[a:]`, `x[:-1]`, `len(x)`, `x.startswith(c)`, `x.endswith(c)`, `x.isdigit()`, `x.lower()`,
`x.upper()`, f-strings of names/subscripts/constants, comparisons `== != < <= > >=` between
lengths/ints or `==`/`!=` between strings, `in (consts)`, `and`/`or`/`not`.

Semantics: every expression evaluates to `option T` (None = IndexError from an out-of-range
subscript); `and`/`or` short-circuit; the function returns `result (str * option str)`.
Anything else raises Untranslatable (the whole function then falls back to the default)."""
import ast

from .core import Untranslatable, coq_chars, coq_string


class FunTranslator:
    def __init__(self, enums):
        self.enums = enums          # python enum class name -> coq members table name
        self.counter = 0

    def fresh(self, base):
        self.counter += 1
        return f"{base}_{self.counter}"

    # ------------------------------------------------------------ expressions
    def sexpr(self, e, env):
        """string-valued expression -> Coq term of type option str"""
        if isinstance(e, ast.Name):
            if e.id not in env:
                raise Untranslatable(f"unbound name {e.id}")
            return f"(Some {env[e.id]})"
        if isinstance(e, ast.Constant) and isinstance(e.value, str):
            return f"(Some {coq_chars(e.value)})"
        if isinstance(e, ast.Subscript):
            base = self.sexpr(e.value, env)
            sl = e.slice
            if isinstance(sl, ast.Slice):
                if sl.step is not None:
                    raise Untranslatable("slice step")
                lo, hi = sl.lower, sl.upper
                if hi is None and isinstance(lo, ast.Constant) and isinstance(lo.value, int) and lo.value >= 0:
                    return f"(omap (skipn {lo.value}) {base})"
                if lo is None and isinstance(hi, ast.UnaryOp) and isinstance(hi.op, ast.USub) \
                        and isinstance(hi.operand, ast.Constant) and hi.operand.value == 1:
                    return f"(omap (@removelast ascii) {base})"
                if lo is None and isinstance(hi, ast.Constant) and isinstance(hi.value, int) and hi.value >= 0:
                    return f"(omap (firstn {hi.value}) {base})"
                raise Untranslatable(f"slice {ast.unparse(e)}")
            if isinstance(sl, ast.Constant) and isinstance(sl.value, int) and sl.value >= 0:
                return f"(obind {base} (fun s_ => index_at s_ {sl.value}))"
            raise Untranslatable(f"subscript {ast.unparse(e)}")
        if isinstance(e, ast.Call) and isinstance(e.func, ast.Attribute) and not e.args and e.func.attr in ("lower", "upper"):
            return f"(omap {e.func.attr} {self.sexpr(e.func.value, env)})"
        if isinstance(e, ast.JoinedStr):
            parts = []
            for v in e.values:
                if isinstance(v, ast.Constant):
                    parts.append(f"(Some {coq_chars(v.value)})")
                elif isinstance(v, ast.FormattedValue) and v.format_spec is None and v.conversion == -1:
                    parts.append(self.sexpr(v.value, env))
                else:
                    raise Untranslatable("f-string part")
            out = "(Some [])"
            for p in reversed(parts):
                out = f"(omap2 (@app ascii) {p} {out})"
            return out
        raise Untranslatable(f"string expression {ast.unparse(e)}")

    def zexpr(self, e, env):
        """int-valued expression -> option Z"""
        if isinstance(e, ast.Constant) and isinstance(e.value, int) and not isinstance(e.value, bool):
            return f"(Some ({e.value})%Z)"
        if isinstance(e, ast.Call) and isinstance(e.func, ast.Name) and e.func.id == "len" and len(e.args) == 1:
            return f"(omap (fun s_ => Z.of_nat (length s_)) {self.sexpr(e.args[0], env)})"
        raise Untranslatable(f"int expression {ast.unparse(e)}")

    def is_int(self, e):
        return (isinstance(e, ast.Constant) and isinstance(e.value, int) and not isinstance(e.value, bool)) or \
               (isinstance(e, ast.Call) and isinstance(e.func, ast.Name) and e.func.id == "len")

    def bexpr(self, e, env):
        """boolean expression -> option bool, short-circuiting"""
        if isinstance(e, ast.BoolOp):
            op = "and_m" if isinstance(e.op, ast.And) else "or_m"
            parts = [self.bexpr(v, env) for v in e.values]
            out = parts[-1]
            for p in reversed(parts[:-1]):
                out = f"({op} {p} {out})"
            return out
        if isinstance(e, ast.UnaryOp) and isinstance(e.op, ast.Not):
            return f"(omap negb {self.bexpr(e.operand, env)})"
        if isinstance(e, ast.Compare) and len(e.ops) == 1:
            op, a, b = e.ops[0], e.left, e.comparators[0]
            if isinstance(op, ast.In) and isinstance(b, (ast.Tuple, ast.List)):
                consts = []
                for c in b.elts:
                    if not (isinstance(c, ast.Constant) and isinstance(c.value, str)):
                        raise Untranslatable("`in` over non-constants")
                    consts.append(coq_chars(c.value))
                return f"(omap (fun s_ => mem_str s_ [{'; '.join(consts)}]) {self.sexpr(a, env)})"
            if self.is_int(a) or self.is_int(b):
                f = {ast.Eq: "Z.eqb", ast.GtE: "Z.geb", ast.LtE: "Z.leb", ast.Lt: "Z.ltb", ast.Gt: "Z.gtb"}.get(type(op))
                if f is None:
                    if isinstance(op, ast.NotEq):
                        return f"(omap2 (fun a_ b_ => negb (Z.eqb a_ b_)) {self.zexpr(a, env)} {self.zexpr(b, env)})"
                    raise Untranslatable("int comparison")
                return f"(omap2 {f} {self.zexpr(a, env)} {self.zexpr(b, env)})"
            if isinstance(op, ast.Eq):
                return f"(omap2 str_eqb {self.sexpr(a, env)} {self.sexpr(b, env)})"
            if isinstance(op, ast.NotEq):
                return f"(omap2 (fun a_ b_ => negb (str_eqb a_ b_)) {self.sexpr(a, env)} {self.sexpr(b, env)})"
            raise Untranslatable(f"comparison {ast.unparse(e)}")
        if isinstance(e, ast.Call) and isinstance(e.func, ast.Attribute):
            recv = e.func.value
            if e.func.attr in ("startswith", "endswith") and len(e.args) == 1 and isinstance(e.args[0], ast.Constant) \
                    and isinstance(e.args[0].value, str):
                f = "starts_with" if e.func.attr == "startswith" else "ends_with"
                return f"(omap ({f} {coq_chars(e.args[0].value)}) {self.sexpr(recv, env)})"
            if e.func.attr == "isdigit" and not e.args:
                return f"(omap is_digit {self.sexpr(recv, env)})"
        raise Untranslatable(f"boolean expression {ast.unparse(e)}")

    # ------------------------------------------------------------ statements
    def is_log(self, st):
        return isinstance(st, ast.Expr) and (
            (isinstance(st.value, ast.Call) and ast.unparse(st.value.func).startswith("logging."))
            or (isinstance(st.value, ast.Constant) and isinstance(st.value.value, str)))

    def ret(self, st, env):
        v = st.value
        if not (isinstance(v, ast.Tuple) and len(v.elts) == 2 and isinstance(v.elts[0], ast.Constant) and isinstance(v.elts[0].value, str)):
            raise Untranslatable(f"return shape {ast.unparse(st)}")
        cat = coq_chars(v.elts[0].value)
        x = v.elts[1]
        if isinstance(x, ast.Constant) and x.value is None:
            return f"(Ok ({cat}, None))"
        if isinstance(x, ast.Attribute) and isinstance(x.value, ast.Name) and x.value.id in self.enums:
            return (f"(match enum_lookup {self.enums[x.value.id]} {coq_chars(x.attr)} with "
                    f"Some v_ => Ok ({cat}, Some v_) | None => Raise AttributeError end)")
        if isinstance(x, ast.Subscript) and isinstance(x.value, ast.Name) and x.value.id in self.enums:
            key = self.sexpr(x.slice, env)
            return (f"(match {key} with None => Raise IndexError | Some k_ => "
                    f"match enum_lookup {self.enums[x.value.id]} k_ with Some v_ => Ok ({cat}, Some v_) | None => Raise KeyError end end)")
        raise Untranslatable(f"return value {ast.unparse(x)}")

    def always_returns(self, stmts):
        for st in stmts:
            if isinstance(st, ast.Return):
                return True
            if isinstance(st, ast.If) and st.orelse and self.always_returns(st.body) and self.always_returns(st.orelse):
                return True
            if isinstance(st, ast.Try) and self.always_returns(st.body) and all(self.always_returns(h.body) for h in st.handlers):
                return True
        return False

    def block(self, stmts, env, indent=1):
        """stmts (with everything that follows them already appended) -> Coq term of type result _"""
        pad = "  " * indent
        if not stmts:
            raise Untranslatable("control reaches the end of the function without return")
        st, rest = stmts[0], stmts[1:]
        if self.is_log(st):
            return self.block(rest, env, indent)
        if isinstance(st, ast.Return):
            return self.ret(st, env)
        if isinstance(st, ast.Assign) and len(st.targets) == 1 and isinstance(st.targets[0], ast.Name):
            name = st.targets[0].id
            v = self.fresh(name)
            e = self.sexpr(st.value, env)
            env2 = dict(env, **{name: v})
            return f"(match {e} with None => Raise IndexError | Some {v} =>\n{pad}{self.block(rest, env2, indent)} end)"
        if isinstance(st, ast.If):
            c = self.bexpr(st.test, env)
            pure_assign = all(self.is_log(s) or (isinstance(s, ast.Assign) and len(s.targets) == 1 and isinstance(s.targets[0], ast.Name)
                                                 and isinstance(s.value, ast.Subscript) and isinstance(s.value.slice, ast.Slice))
                              for s in st.body) and not st.orelse
            if pure_assign:
                # conditional rebinding without duplicating the continuation; slices never raise
                b = self.fresh("c")
                out = f"(match {c} with None => Raise IndexError | Some {b} =>\n{pad}"
                env2 = dict(env)
                closers = ""
                for s in st.body:
                    if self.is_log(s):
                        continue
                    name = s.targets[0].id
                    v = self.fresh(name)
                    e = self.sexpr(s.value, env2)
                    if name not in env2:
                        raise Untranslatable("conditional binding of a new name")
                    out += f"match (if {b} then {e} else Some {env2[name]}) with None => Raise IndexError | Some {v} =>\n{pad}"
                    closers += " end"
                    env2[name] = v
                out += self.block(rest, env2, indent) + closers + " end)"
                return out
            then = self.block(list(st.body) + rest, env, indent + 1)
            other = self.block(list(st.orelse) + rest, env, indent + 1)
            return (f"(match {c} with None => Raise IndexError\n{pad}| Some true => {then}\n{pad}| Some false => {other} end)")
        if isinstance(st, ast.Try):
            if st.orelse or st.finalbody or len(st.handlers) != 1:
                raise Untranslatable("try shape")
            h = st.handlers[0]
            if not (self.always_returns(st.body) and self.always_returns(h.body)):
                raise Untranslatable("try body/handler may fall through")
            names = []
            t = h.type
            for x in (t.elts if isinstance(t, ast.Tuple) else [t]):
                if not (isinstance(x, ast.Name) and x.id in ("ValueError", "KeyError", "IndexError", "TypeError", "AttributeError")):
                    raise Untranslatable("handler type")
                names.append(x.id)
            body = self.block(list(st.body), env, indent + 1)
            handler = self.block(list(h.body), env, indent + 1)
            pats = " | ".join(f"Raise {n}" for n in names)
            return f"(match {body} with\n{pad}| {pats} => {handler}\n{pad}| r_ => r_ end)"
        raise Untranslatable(f"statement {type(st).__name__}: {ast.unparse(st)[:60]}")

    def function(self, fn, coqname):
        if len(fn.args.args) != 1:
            raise Untranslatable("arity")
        arg = fn.args.args[0].arg
        v = self.fresh(arg)
        body = self.block(list(fn.body), {arg: v})
        return f"Definition {coqname} ({v} : str) : result (str * option str) :=\n  {body}."
