Definition unify (fr3d_name_1 : str) : result (str * option str) :=
  (match (Some fr3d_name_1) with None => Raise IndexError | Some original_name_2 =>
  (match (omap (starts_with (L "n")) (Some fr3d_name_1)) with None => Raise IndexError | Some c_3 =>
  match (if c_3 then (omap (skipn 1) (Some fr3d_name_1)) else Some fr3d_name_1) with None => Raise IndexError | Some fr3d_name_4 =>
  (match (and_m (omap2 Z.geb (omap (fun s_ => Z.of_nat (length s_)) (Some fr3d_name_4)) (Some (3)%Z)) (omap (ends_with (L "a")) (Some fr3d_name_4))) with None => Raise IndexError | Some c_5 =>
  match (if c_5 then (omap (@removelast ascii) (Some fr3d_name_4)) else Some fr3d_name_4) with None => Raise IndexError | Some fr3d_name_6 =>
  (match (and_m (omap2 Z.eqb (omap (fun s_ => Z.of_nat (length s_)) (Some fr3d_name_6)) (Some (3)%Z)) (and_m (omap2 str_eqb (omap (skipn 1) (Some fr3d_name_6)) (Some (L "BR"))) (omap is_digit (obind (Some fr3d_name_6) (fun s_ => index_at s_ 0))))) with None => Raise IndexError
  | Some true => (match (match (omap2 (@app ascii) (Some (L "_")) (omap2 (@app ascii) (obind (Some fr3d_name_6) (fun s_ => index_at s_ 0)) (Some []))) with None => Raise IndexError | Some br_type_7 =>
      (match (Some br_type_7) with None => Raise IndexError | Some k_ => match enum_lookup br_members k_ with Some v_ => Ok ((L "base-ribose"), Some v_) | None => Raise KeyError end end) end) with
    | Raise ValueError | Raise KeyError => (Ok ((L "other"), None))
    | r_ => r_ end)
  | Some false => (match (and_m (omap2 Z.eqb (omap (fun s_ => Z.of_nat (length s_)) (Some fr3d_name_6)) (Some (4)%Z)) (and_m (omap2 str_eqb (omap (skipn 1) (Some fr3d_name_6)) (Some (L "BPh"))) (omap is_digit (obind (Some fr3d_name_6) (fun s_ => index_at s_ 0))))) with None => Raise IndexError
    | Some true => (match (match (omap2 (@app ascii) (Some (L "_")) (omap2 (@app ascii) (obind (Some fr3d_name_6) (fun s_ => index_at s_ 0)) (Some []))) with None => Raise IndexError | Some bph_type_8 =>
        (match (Some bph_type_8) with None => Raise IndexError | Some k_ => match enum_lookup bph_members k_ with Some v_ => Ok ((L "base-phosphate"), Some v_) | None => Raise KeyError end end) end) with
      | Raise ValueError | Raise KeyError => (Ok ((L "other"), None))
      | r_ => r_ end)
    | Some false => (match (and_m (omap2 Z.eqb (omap (fun s_ => Z.of_nat (length s_)) (Some fr3d_name_6)) (Some (3)%Z)) (and_m (omap (starts_with (L "s")) (Some fr3d_name_6)) (and_m (omap (fun s_ => mem_str s_ [(L "3"); (L "5")]) (obind (Some fr3d_name_6) (fun s_ => index_at s_ 1))) (omap (fun s_ => mem_str s_ [(L "3"); (L "5")]) (obind (Some fr3d_name_6) (fun s_ => index_at s_ 2)))))) with None => Raise IndexError
      | Some true => (match (omap2 str_eqb (Some fr3d_name_6) (Some (L "s33"))) with None => Raise IndexError
        | Some true => (match enum_lookup stacking_members (L "downward") with Some v_ => Ok ((L "stacking"), Some v_) | None => Raise AttributeError end)
        | Some false => (match (omap2 str_eqb (Some fr3d_name_6) (Some (L "s55"))) with None => Raise IndexError
          | Some true => (match enum_lookup stacking_members (L "upward") with Some v_ => Ok ((L "stacking"), Some v_) | None => Raise AttributeError end)
          | Some false => (match (omap2 str_eqb (Some fr3d_name_6) (Some (L "s35"))) with None => Raise IndexError
            | Some true => (match enum_lookup stacking_members (L "outward") with Some v_ => Ok ((L "stacking"), Some v_) | None => Raise AttributeError end)
            | Some false => (match (omap2 str_eqb (Some fr3d_name_6) (Some (L "s53"))) with None => Raise IndexError
              | Some true => (match enum_lookup stacking_members (L "inward") with Some v_ => Ok ((L "stacking"), Some v_) | None => Raise AttributeError end)
              | Some false => (match (and_m (omap2 Z.eqb (omap (fun s_ => Z.of_nat (length s_)) (Some fr3d_name_6)) (Some (3)%Z)) (omap (fun s_ => mem_str s_ [(L "c"); (L "t")]) (omap lower (obind (Some fr3d_name_6) (fun s_ => index_at s_ 0))))) with None => Raise IndexError
                | Some true => (match (match (omap lower (obind (Some fr3d_name_6) (fun s_ => index_at s_ 0))) with None => Raise IndexError | Some edge_type_9 =>
                    (match (omap upper (obind (Some fr3d_name_6) (fun s_ => index_at s_ 1))) with None => Raise IndexError | Some edge1_10 =>
                    (match (omap upper (obind (Some fr3d_name_6) (fun s_ => index_at s_ 2))) with None => Raise IndexError | Some edge2_11 =>
                    (match (omap2 (@app ascii) (Some edge_type_9) (omap2 (@app ascii) (Some edge1_10) (omap2 (@app ascii) (Some edge2_11) (Some [])))) with None => Raise IndexError | Some lw_format_12 =>
                    (match (Some lw_format_12) with None => Raise IndexError | Some k_ => match enum_lookup lw_members k_ with Some v_ => Ok ((L "base-pair"), Some v_) | None => Raise KeyError end end) end) end) end) end) with
                  | Raise KeyError => (Ok ((L "other"), None))
                  | r_ => r_ end)
                | Some false => (Ok ((L "other"), None)) end) end) end) end) end)
      | Some false => (match (and_m (omap2 Z.eqb (omap (fun s_ => Z.of_nat (length s_)) (Some fr3d_name_6)) (Some (3)%Z)) (omap (fun s_ => mem_str s_ [(L "c"); (L "t")]) (omap lower (obind (Some fr3d_name_6) (fun s_ => index_at s_ 0))))) with None => Raise IndexError
        | Some true => (match (match (omap lower (obind (Some fr3d_name_6) (fun s_ => index_at s_ 0))) with None => Raise IndexError | Some edge_type_13 =>
            (match (omap upper (obind (Some fr3d_name_6) (fun s_ => index_at s_ 1))) with None => Raise IndexError | Some edge1_14 =>
            (match (omap upper (obind (Some fr3d_name_6) (fun s_ => index_at s_ 2))) with None => Raise IndexError | Some edge2_15 =>
            (match (omap2 (@app ascii) (Some edge_type_13) (omap2 (@app ascii) (Some edge1_14) (omap2 (@app ascii) (Some edge2_15) (Some [])))) with None => Raise IndexError | Some lw_format_16 =>
            (match (Some lw_format_16) with None => Raise IndexError | Some k_ => match enum_lookup lw_members k_ with Some v_ => Ok ((L "base-pair"), Some v_) | None => Raise KeyError end end) end) end) end) end) with
          | Raise KeyError => (Ok ((L "other"), None))
          | r_ => r_ end)
        | Some false => (Ok ((L "other"), None)) end) end) end) end) end end) end end) end).
