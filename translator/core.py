"""Translator core: Python `ast` -> Coq text, fail-closed per site.

Every site is extracted by a small function that either returns Coq text or raises
Untranslatable; in the latter case the hand-written default is emitted and the site is
recorded as a *fallback* (its tie to the source is then the correspondence check only).
"""
import ast
import string


class Untranslatable(Exception):
    pass


def parse_file(path):
    with open(path, encoding="utf-8") as f:
        src = f.read()
    return ast.parse(src), src


def find_class(tree, name):
    for n in tree.body:
        if isinstance(n, ast.ClassDef) and n.name == name:
            return n
    raise Untranslatable(f"class {name} not found")


def find_func(node, name):
    for n in node.body:
        if isinstance(n, (ast.FunctionDef,)) and n.name == name:
            return n
    raise Untranslatable(f"function {name} not found")


def walk_type(node, typ):
    return [n for n in ast.walk(node) if isinstance(n, typ)]


def find_assign(node, target_name, nth=0):
    """nth assignment (in source order) to a plain name inside node."""
    hits = []
    for n in ast.walk(node):
        if isinstance(n, ast.Assign) and len(n.targets) == 1:
            t = n.targets[0]
            if isinstance(t, ast.Name) and t.id == target_name:
                hits.append(n)
        elif isinstance(n, ast.AnnAssign) and isinstance(n.target, ast.Name) and n.target.id == target_name and n.value is not None:
            hits.append(n)
    hits.sort(key=lambda n: (n.lineno, n.col_offset))
    if len(hits) <= nth:
        raise Untranslatable(f"assignment to {target_name} #{nth} not found")
    return hits[nth]


# ---------------------------------------------------------------- constant evaluation

_STRING_CONSTS = {
    "ascii_uppercase": string.ascii_uppercase,
    "ascii_lowercase": string.ascii_lowercase,
    "ascii_letters": string.ascii_letters,
    "digits": string.digits,
}


def const_eval(node, env=None):
    """Whitelist evaluator for constant expressions (strings, numbers, lists, tuples, sets,
    dicts, +, -, *, /, unary -, zip, len, "".join, list comprehension over zip, string.ascii_*)."""
    env = env or {}
    if isinstance(node, ast.Constant):
        return node.value
    if isinstance(node, ast.Name):
        if node.id in env:
            return env[node.id]
        raise Untranslatable(f"name {node.id} is not a known constant")
    if isinstance(node, ast.Attribute):
        if isinstance(node.value, ast.Name) and node.value.id == "string" and node.attr in _STRING_CONSTS:
            return _STRING_CONSTS[node.attr]
        if isinstance(node.value, ast.Name) and node.value.id == "math" and node.attr == "pi":
            import math
            return math.pi
        raise Untranslatable(f"attribute {ast.dump(node)}")
    if isinstance(node, ast.UnaryOp) and isinstance(node.op, ast.USub):
        return -const_eval(node.operand, env)
    if isinstance(node, ast.BinOp):
        a, b = const_eval(node.left, env), const_eval(node.right, env)
        if isinstance(node.op, ast.Add):
            return a + b
        if isinstance(node.op, ast.Sub):
            return a - b
        if isinstance(node.op, ast.Mult):
            return a * b
        if isinstance(node.op, ast.Div):
            return a / b
        raise Untranslatable("binop")
    if isinstance(node, (ast.List, ast.Tuple)):
        vals = [const_eval(e, env) for e in node.elts]
        return vals if isinstance(node, ast.List) else tuple(vals)
    if isinstance(node, ast.Set):
        return set(const_eval(e, env) for e in node.elts)
    if isinstance(node, ast.Dict):
        return {const_eval(k, env): const_eval(v, env) for k, v in zip(node.keys, node.values)}
    if isinstance(node, ast.Call):
        f = node.func
        if isinstance(f, ast.Name) and f.id == "len" and len(node.args) == 1:
            return len(const_eval(node.args[0], env))
        if isinstance(f, ast.Name) and f.id == "zip":
            return list(zip(*[const_eval(a, env) for a in node.args]))
        if isinstance(f, ast.Name) and f.id in ("set", "list", "tuple", "frozenset") and len(node.args) == 1:
            v = const_eval(node.args[0], env)
            return {"set": set, "list": list, "tuple": tuple, "frozenset": frozenset}[f.id](v)
        if isinstance(f, ast.Attribute) and f.attr == "join" and len(node.args) == 1:
            sep = const_eval(f.value, env)
            return sep.join(const_eval(node.args[0], env))
        if isinstance(f, ast.Attribute) and f.attr == "split" and len(node.args) == 0:
            return const_eval(f.value, env).split()
        raise Untranslatable(f"call {ast.dump(f)}")
    if isinstance(node, ast.ListComp) and len(node.generators) == 1:
        g = node.generators[0]
        if g.ifs or g.is_async:
            raise Untranslatable("comprehension with conditions")
        out = []
        for item in const_eval(g.iter, env):
            e2 = dict(env)
            bind(g.target, item, e2)
            out.append(const_eval(node.elt, e2))
        return out
    raise Untranslatable(f"expression {type(node).__name__}")


def bind(target, value, env):
    if isinstance(target, ast.Name):
        env[target.id] = value
    elif isinstance(target, ast.Tuple):
        for t, v in zip(target.elts, value):
            bind(t, v, env)
    else:
        raise Untranslatable("binding target")


# ---------------------------------------------------------------- Coq literal printers

def coq_string(s):
    if not all(32 <= ord(c) < 127 for c in s):
        raise Untranslatable("non-printable-ASCII string constant")
    return '"' + s.replace('"', '""') + '"'


def coq_chars(s):
    return f"(L {coq_string(s)})"


def coq_nat(n):
    if not (isinstance(n, int) and 0 <= n < 5000):
        raise Untranslatable(f"nat literal {n}")
    return f"{n}%nat"


def coq_Z(n):
    if not isinstance(n, int) or isinstance(n, bool):
        raise Untranslatable(f"Z literal {n!r}")
    return f"({n})%Z"


def coq_Q(x):
    """exact rational of a Python float/int constant written as decimal: use the decimal text"""
    from fractions import Fraction
    fr = Fraction(str(x)) if not isinstance(x, int) else Fraction(x)
    return f"({fr.numerator} # {fr.denominator})%Q"


def coq_list(items):
    return "[" + "; ".join(items) + "]"


# ---------------------------------------------------------------- boolean / arithmetic expressions

_CMP_NAT = {ast.Lt: "<?", ast.LtE: "<=?", ast.Eq: "=?"}


def expr_to_coq(node, names, scope):
    """Translate a restricted arithmetic/boolean expression over the given variable names.
    scope: 'nat' (comparisons only, no subtraction) or 'Z'."""
    mod = {"nat": "Nat", "Z": "Z"}[scope]

    def arith(n):
        if isinstance(n, ast.Name):
            if n.id not in names:
                raise Untranslatable(f"free name {n.id}")
            return names[n.id]
        if isinstance(n, ast.Constant) and isinstance(n.value, int) and not isinstance(n.value, bool):
            return coq_nat(n.value) if scope == "nat" else coq_Z(n.value)
        if isinstance(n, ast.BinOp):
            if isinstance(n.op, ast.Add):
                return f"({mod}.add {arith(n.left)} {arith(n.right)})"
            if isinstance(n.op, ast.Sub) and scope == "Z":
                return f"(Z.sub {arith(n.left)} {arith(n.right)})"
            if isinstance(n.op, ast.Mult):
                return f"({mod}.mul {arith(n.left)} {arith(n.right)})"
        if isinstance(n, ast.UnaryOp) and isinstance(n.op, ast.USub) and scope == "Z":
            return f"(Z.opp {arith(n.operand)})"
        raise Untranslatable(f"arith {ast.dump(n)}")

    def cmp1(op, a, b):
        if isinstance(op, ast.Lt):
            return f"({mod}.ltb {a} {b})"
        if isinstance(op, ast.LtE):
            return f"({mod}.leb {a} {b})"
        if isinstance(op, ast.Gt):
            return f"({mod}.ltb {b} {a})"
        if isinstance(op, ast.GtE):
            return f"({mod}.leb {b} {a})"
        if isinstance(op, ast.Eq):
            return f"({mod}.eqb {a} {b})"
        if isinstance(op, ast.NotEq):
            return f"(negb ({mod}.eqb {a} {b}))"
        raise Untranslatable("comparison operator")

    def boolean(n):
        if isinstance(n, ast.BoolOp):
            op = "andb" if isinstance(n.op, ast.And) else "orb"
            parts = [boolean(v) for v in n.values]
            out = parts[-1]
            for p in reversed(parts[:-1]):
                out = f"({op} {p} {out})"
            return out
        if isinstance(n, ast.UnaryOp) and isinstance(n.op, ast.Not):
            return f"(negb {boolean(n.operand)})"
        if isinstance(n, ast.Compare):
            terms = [n.left] + list(n.comparators)
            parts = [cmp1(op, arith(a), arith(b)) for op, a, b in zip(n.ops, terms, terms[1:])]
            out = parts[-1]
            for p in reversed(parts[:-1]):
                out = f"(andb {p} {out})"
            return out
        if isinstance(n, ast.Constant) and isinstance(n.value, bool):
            return "true" if n.value else "false"
        raise Untranslatable(f"boolean {ast.dump(n)}")

    return boolean(node)


class Emitter:
    """Collects definitions for one Gen file together with the per-site status."""

    def __init__(self, modname, header):
        self.modname = modname
        self.lines = [header]
        self.sites = []  # (name, status, detail)

    def site(self, name, fn, default, comment=""):
        """fn() -> Coq body text; default = hand-written body used on failure."""
        try:
            body = fn()
            self.sites.append((name, "translated", ""))
        except Untranslatable as e:
            body = default
            self.sites.append((name, "fallback", str(e)))
        except Exception as e:  # translator bug on unexpected syntax: still fail closed
            body = default
            self.sites.append((name, "fallback", f"{type(e).__name__}: {e}"))
        if comment:
            self.lines.append(f"(* {comment} *)")
        self.lines.append(body)
        self.lines.append("")

    def raw(self, text):
        self.lines.append(text)

    def text(self):
        return "\n".join(self.lines) + "\n"
