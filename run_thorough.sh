#!/bin/bash
# all 20 thorough checks, four at a time; prints the verdict lines (used before releases; takes about an hour)
cd /verif
mkdir -p build/thorough
ls -d evidence >/dev/null
printf "%s\n" C01 C02 C03 C04 C05 C06 C07 C08 C09 C10 C11 C12 C13 C14 C15 C16 C17 C18 C19 C20 | \
  xargs -P 4 -I{} bash -c './check {} --tier thorough > build/thorough/{}.log 2>&1; echo "{} exit=$?"'
grep -h -E "^VIOLATION|^KNOWN-FINDING|^CHECK BROKEN|tier=" build/thorough/*.log
